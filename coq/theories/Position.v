(* L-POS: hand model of position_index_t (src/position.cpp), of PositionTracker (src/libparser.h) as
   the lexer drives it (YY_USER_ACTION and the newline rules of src/lexer.l), and of the line / column
   arithmetic of Document::add_error + error_t.  Positions are natural numbers here; the 2^32 wrap of the
   real counter is the subject of C15 and is excluded by hypothesis where it matters. *)
From Coq Require Import List Arith Lia Bool ZArith ZifyNat.
Import ListNotations.
Ltac Zify.zify_post_hook ::= Z.div_mod_to_equations.

Record entry := mke { e_pos : nat; e_off : nat; e_line : nat; e_path : nat }.
Definition dflt := mke 0 0 0 0.
Definition posn (tbl : list entry) (i : nat) : nat := e_pos (nth i tbl dflt).

(* position_index_t::add: refuses to go backwards *)
Definition add (tbl : list entry) (e : entry) : option (list entry) :=
  match tbl with
  | [] => Some [e]
  | _ => if e_pos e <? e_pos (last tbl dflt) then None else Some (tbl ++ [e])
  end.

(* position_index_t::find(position, first, last): the loop, with the iteration count as fuel *)
Fixpoint bs (fuel : nat) (tbl : list entry) (p first last : nat) : nat :=
  match fuel with
  | O => first
  | S f => if first + 1 <? last
           then let i := (first + last) / 2 in
                if p <? posn tbl i then bs f tbl p first i else bs f tbl p i last
           else first
  end.
Definition find (tbl : list entry) (p : nat) : entry := nth (bs (length tbl) tbl p 0 (length tbl)) tbl dflt.

Definition sorted (tbl : list entry) : Prop := forall i j, i <= j -> j < length tbl -> posn tbl i <= posn tbl j.

(* ---- the binary search returns the last entry at or before the position ---------------------------------- *)
Lemma bs_spec tbl p : sorted tbl -> forall fuel first last,
  first < last -> last <= length tbl -> last - first <= S fuel ->
  (first = 0 \/ posn tbl first <= p) -> (last = length tbl \/ p < posn tbl last) ->
  let r := bs fuel tbl p first last in
  first <= r < last /\ (r = 0 \/ posn tbl r <= p) /\ (S r = length tbl \/ p < posn tbl (S r)).
Proof.
  intros S. induction fuel as [|f IH]; intros first last Hfl Hl Hf Hlo Hhi; cbn [bs].
  - assert (last = first + 1) by lia. subst last. split; [lia|]. split; [exact Hlo|].
    replace (Datatypes.S first) with (first + 1) by lia. destruct Hhi as [Hhi|Hhi]; [left; lia|right; exact Hhi].
  - destruct (first + 1 <? last) eqn:E.
    + apply Nat.ltb_lt in E. set (i := (first + last) / 2).
      assert (Hi : first < i < last) by (unfold i; lia).
      destruct (p <? posn tbl i) eqn:C.
      * apply Nat.ltb_lt in C.
        assert (X : first <= bs f tbl p first i < i /\ (bs f tbl p first i = 0 \/ posn tbl (bs f tbl p first i) <= p) /\
                    (Datatypes.S (bs f tbl p first i) = length tbl \/ p < posn tbl (Datatypes.S (bs f tbl p first i))))
          by (apply IH; auto; lia).
        destruct X as (R1 & R2 & R3). split; [lia|]. split; auto.
      * apply Nat.ltb_ge in C.
        assert (X : i <= bs f tbl p i last < last /\ (bs f tbl p i last = 0 \/ posn tbl (bs f tbl p i last) <= p) /\
                    (Datatypes.S (bs f tbl p i last) = length tbl \/ p < posn tbl (Datatypes.S (bs f tbl p i last))))
          by (apply IH; auto; lia).
        destruct X as (R1 & R2 & R3). split; [lia|]. split; auto.
    + apply Nat.ltb_ge in E. assert (last = first + 1) by lia. subst last. split; [lia|]. split; [exact Hlo|].
      replace (Datatypes.S first) with (first + 1) by lia. destruct Hhi as [Hhi|Hhi]; [left; lia|right; exact Hhi].
Qed.

Theorem find_correct tbl p : sorted tbl -> tbl <> [] ->
  let r := bs (length tbl) tbl p 0 (length tbl) in
  r < length tbl /\
  (posn tbl 0 <= p -> posn tbl r <= p /\ forall j, r < j -> j < length tbl -> p < posn tbl j) /\
  (p < posn tbl 0 -> r = 0).
Proof.
  intros S NE. assert (L : 0 < length tbl) by (destruct tbl; [congruence|cbn; lia]).
  destruct (bs_spec tbl p S (length tbl) 0 (length tbl)) as (R1 & R2 & R3); try lia; auto.
  cbv zeta. set (r := bs (length tbl) tbl p 0 (length tbl)) in *. split; [lia|]. split.
  - intros H0. split.
    + destruct R2 as [R2|R2]; [rewrite R2; exact H0|exact R2].
    + intros j Hj Hn. destruct R3 as [R3|R3]; [lia|]. pose proof (S (Datatypes.S r) j ltac:(lia) Hn). lia.
  - intros H0. destruct R2 as [R2|R2]; [exact R2|]. pose proof (S 0 r ltac:(lia) ltac:(lia)). lia.
Qed.

(* ---- the tracker as the lexer drives it -------------------------------------------------------------------- *)
(* one lexeme of a text block: its length in bytes and the number of line ends it accounts for:
   ordinary tokens, blanks and single-line comments: 0; "\n"+ : its length; ("\r\n")+ : half its length;
   a continuation "\" blanks "\n" : 1; a "\n" inside a comment: 1 *)
Record lexeme := mkl { l_len : nat; l_nl : nat }.
Record tracker := mkt { t_line : nat; t_off : nat; t_pos : nat; t_path : nat }.
(* setPath: a fresh block; the counter is bumped by one so that ranges of adjacent blocks never touch *)
Definition set_path (t : tracker) (path : nat) : tracker * entry :=
  let t' := mkt 1 0 (S (t_pos t)) path in (t', mke (t_pos t') 0 1 path).
(* YY_USER_ACTION (increment) followed by the rule's newline(ch, n) if it has one *)
Definition lex_step (t : tracker) (l : lexeme) : tracker * list entry :=
  let t1 := mkt (t_line t) (t_off t + l_len l) (t_pos t + l_len l) (t_path t) in
  if l_nl l =? 0 then (t1, [])
  else let t2 := mkt (t_line t1 + l_nl l) (t_off t1) (t_pos t1) (t_path t1) in (t2, [mke (t_pos t2) (t_off t2) (t_line t2) (t_path t2)]).
Fixpoint lex_all (t : tracker) (ls : list lexeme) : tracker * list entry :=
  match ls with
  | [] => (t, [])
  | l :: r => let '(t1, e1) := lex_step t l in let '(t2, e2) := lex_all t1 r in (t2, e1 ++ e2)
  end.

(* ---- what a position inside the block should resolve to --------------------------------------------------- *)
(* k is a byte offset into the block.  Walking the lexemes (c = bytes consumed so far): a line end counts once
   the lexeme that contains it has been consumed entirely; `start` is the offset at which the current line began.
   Returns (line number, offset of the start of that line). *)
Fixpoint resolve (ls : list lexeme) (c k line start : nat) : nat * nat :=
  match ls with
  | [] => (line, start)
  | l :: r => let c' := c + l_len l in
              if c' <=? k then (if l_nl l =? 0 then resolve r c' k line start else resolve r c' k (line + l_nl l) c')
              else (line, start)
  end.

(* the last entry of a list whose position is <= p, scanning left to right, starting from cur *)
Fixpoint last_le (cur : entry) (es : list entry) (p : nat) : entry :=
  match es with [] => cur | e :: r => if e_pos e <=? p then last_le e r p else cur end.

(* all entries produced from tracker t lie at or after t's position, in non-decreasing order *)
Fixpoint chain (lo : nat) (es : list entry) : Prop := match es with [] => True | e :: r => lo <= e_pos e /\ chain (e_pos e) r end.
Lemma chain_weaken lo lo' es : lo' <= lo -> chain lo es -> chain lo' es.
Proof. destruct es; cbn; intros; [auto|]. destruct H0. split; [lia|auto]. Qed.
Lemma lex_all_chain : forall ls t, chain (t_pos t) (snd (lex_all t ls)) /\ t_pos t <= t_pos (fst (lex_all t ls)).
Proof.
  induction ls as [|l r IH]; intros t; cbn [lex_all]; [cbn; auto|].
  unfold lex_step. destruct (l_nl l =? 0) eqn:E; cbn [fst snd].
  - match goal with |- context [lex_all ?t1 r] => destruct (IH t1) as [C M]; destruct (lex_all t1 r) as [t2 e2] eqn:L end.
    cbn [fst snd app t_pos] in *. split; [eapply chain_weaken; [|exact C]; cbn; lia|cbn in M; lia].
  - match goal with |- context [lex_all ?t1 r] => destruct (IH t1) as [C M]; destruct (lex_all t1 r) as [t2 e2] eqn:L end.
    cbn [fst snd app t_pos e_pos chain] in *. cbn in M. split; [split; [cbn; lia|exact C]|lia].
Qed.

(* scanning the produced entries gives what `resolve` says *)
Lemma last_le_resolve base path : forall ls t cur c k line start,
  t_pos t = base + c -> t_line t = line -> t_path t = path -> e_pos cur = base + start -> e_line cur = line -> e_path cur = path -> start <= c ->
  let e := last_le cur (snd (lex_all t ls)) (base + k) in
  e_line e = fst (resolve ls c k line start) /\ e_pos e = base + snd (resolve ls c k line start) /\ e_path e = path /\ snd (resolve ls c k line start) <= Nat.max start k.
Proof.
  induction ls as [|l r IH]; intros t cur c k line start Hp Hl Hpa Hcp Hcl Hcpa Hsc; cbn [lex_all resolve].
  - cbn. repeat split; auto; lia.
  - unfold lex_step. destruct (l_nl l =? 0) eqn:E.
    + match goal with |- context [lex_all ?x r] => set (t1 := x); destruct (lex_all t1 r) as [t2 e2] eqn:L end. cbn [snd app].
      destruct (c + l_len l <=? k) eqn:K.
      * specialize (IH t1 cur (c + l_len l) k line start). rewrite L in IH. cbn [snd] in IH. apply IH; unfold t1; cbn; auto; lia.
      * (* every later entry lies beyond base + k *)
        apply Nat.leb_gt in K. destruct (lex_all_chain r t1) as [C _]. rewrite L in C. cbn [snd] in C.
        assert (N : last_le cur e2 (base + k) = cur).
        { destruct e2 as [|e e2']; [reflexivity|]. cbn [last_le]. destruct C as [C _]. unfold t1 in C; cbn in C.
          destruct (e_pos e <=? base + k) eqn:Q; [apply Nat.leb_le in Q; lia|reflexivity]. }
        rewrite N. cbn. repeat split; auto; lia.
    + match goal with |- context [lex_all ?x r] => set (t1 := x); destruct (lex_all t1 r) as [t2 e2] eqn:L end.
      cbn [snd app last_le e_pos t_pos t_off t_line t_path].
      destruct (c + l_len l <=? k) eqn:K.
      * apply Nat.leb_le in K.
        assert (Q : (t_pos t1 <=? base + k) = true) by (unfold t1; cbn; apply Nat.leb_le; lia). rewrite Q.
        match goal with |- context [last_le ?x e2] => set (e := x) end.
        specialize (IH t1 e (c + l_len l) k (line + l_nl l) (c + l_len l)). rewrite L in IH. cbn [snd] in IH.
        destruct IH as (I1 & I2 & I3 & I4); unfold t1, e; cbn; auto; try lia.
        repeat split; auto; lia.
      * apply Nat.leb_gt in K.
        assert (Q : (t_pos t1 <=? base + k) = false) by (unfold t1; cbn; apply Nat.leb_gt; lia). rewrite Q.
        cbn. repeat split; auto; lia.
Qed.

(* ---- binary search = left-to-right scan on the tables the tracker produces ------------------------------------ *)
Lemma chain_all_ge lo es : chain lo es -> forall j, j < length es -> lo <= posn es j.
Proof.
  revert lo. induction es as [|e r IH]; intros lo C j Hj; [cbn in Hj; lia|].
  destruct C as [C1 C2]. destruct j; unfold posn; cbn; [exact C1|]. specialize (IH _ C2 j ltac:(cbn in Hj; lia)). unfold posn in IH. lia.
Qed.
Lemma sorted_of_chain cur es : chain (e_pos cur) es -> sorted (cur :: es).
Proof.
  revert cur. induction es as [|e r IH]; intros cur C i j Hij Hj.
  - cbn in Hj. assert (i = 0) by lia. assert (j = 0) by lia. subst. lia.
  - destruct C as [C1 C2]. destruct i.
    + destruct j; [lia|]. unfold posn at 1. cbn [nth]. pose proof (chain_all_ge (e_pos cur) (e :: r) (conj C1 C2) j ltac:(cbn in *; lia)) as G.
      unfold posn in *. cbn [nth]. exact G.
    + destruct j; [lia|]. unfold posn. cbn [nth]. apply (IH e C2 i j); cbn in *; lia.
Qed.
Lemma last_le_index : forall es cur p, chain (e_pos cur) es -> e_pos cur <= p ->
  exists r, r < S (length es) /\ nth r (cur :: es) dflt = last_le cur es p /\ posn (cur :: es) r <= p /\
            forall j, r < j -> j < S (length es) -> p < posn (cur :: es) j.
Proof.
  induction es as [|e r IH]; intros cur p C H.
  - exists 0. cbn. repeat split; auto; intros; lia.
  - destruct C as [C1 C2]. cbn [last_le]. destruct (e_pos e <=? p) eqn:Q.
    + apply Nat.leb_le in Q. destruct (IH e p C2 Q) as (i & I1 & I2 & I3 & I4). exists (S i). cbn [length nth]. repeat split; auto; try lia.
      intros j Hj Hn. destruct j; [lia|]. unfold posn in *. cbn [nth]. apply I4; lia.
    + apply Nat.leb_gt in Q. exists 0. cbn [nth]. repeat split; auto; try (cbn; lia).
      intros j Hj Hn. destruct j; [lia|]. unfold posn. cbn [nth].
      destruct j; cbn [nth]; [lia|].
      pose proof (chain_all_ge (e_pos e) r C2 j ltac:(cbn in *; lia)) as G. unfold posn in G. lia.
Qed.
Theorem find_is_scan cur es p : chain (e_pos cur) es -> e_pos cur <= p -> find (cur :: es) p = last_le cur es p.
Proof.
  intros C H. pose proof (sorted_of_chain cur es C) as S.
  destruct (find_correct (cur :: es) p S ltac:(discriminate)) as (R1 & R2 & _).
  destruct (R2 H) as [R3 R4]. destruct (last_le_index es cur p C H) as (i & I1 & I2 & I3 & I4).
  unfold find. set (r := bs (length (cur :: es)) (cur :: es) p 0 (length (cur :: es))) in *.
  assert (r = i).
  { destruct (Nat.lt_trichotomy r i) as [L|[L|L]]; [|exact L|].
    - pose proof (R4 i L ltac:(cbn in *; lia)). lia.
    - pose proof (I4 r L ltac:(cbn in *; lia)). lia. }
  subst r. rewrite H0. exact I2.
Qed.

(* ---- line and column of every position inside a text block ---------------------------------------------------- *)
(* after setPath on tracker t0 the block's text starts at absolute position base = t_pos t0 + 1; a diagnostic whose
   range starts (or ends) at byte offset k of the block is resolved through find over the table built while lexing *)
Theorem linecol_correct t0 path ls k :
  let '(t1, e0) := set_path t0 path in
  let tbl := e0 :: snd (lex_all t1 ls) in
  let base := S (t_pos t0) in
  let e := find tbl (base + k) in
  let '(line, start) := resolve ls 0 k 1 0 in
  e_line e = line /\ (base + k) - e_pos e = k - start /\ start <= k /\ e_path e = path.
Proof.
  unfold set_path. cbn [t_pos]. set (base := S (t_pos t0)). set (t1 := mkt 1 0 base path). set (e0 := mke base 0 1 path).
  destruct (resolve ls 0 k 1 0) as [line start] eqn:R.
  destruct (lex_all_chain ls t1) as [C _]. cbn [t_pos t1] in C.
  rewrite (find_is_scan e0 (snd (lex_all t1 ls)) (base + k)) by (cbn; auto; lia).
  pose proof (last_le_resolve base path ls t1 e0 0 k 1 0) as X.
  cbn [t_pos t_line t_path e_pos e_line e_path t1 e0] in X.
  specialize (X ltac:(lia) eq_refl eq_refl ltac:(lia) eq_refl eq_refl ltac:(lia)).
  cbv zeta in X. destruct X as (L1 & L2 & L3 & L4).
  rewrite R in *. cbn [fst snd] in *. rewrite L1, L2, L3. repeat split; auto; lia.
Qed.
