(* C04 — the document built from an XML model mirrors the XML's structure exactly (template part).
   DocModel.v: the reader's descent over a <template> element as a function to builder callbacks, and
   DocumentBuilder's proc_* callbacks; DocProofs.v: their composition is the identity on well-formed templates. *)
From Coq Require Import List Bool Arith.
From Utap Require Import DocModel DocProofs.
Import ListNotations.

(* For every template element (any number of locations, branchpoints, edges and labels in any order) that is well
   formed - location names distinct, no location both urgent and committed, init and all edge end points resolving to
   locations / branchpoints of the template - feeding the reader's callbacks to the builder appends exactly the
   document template that mirrors the element: locations in order with their name (or _id name), invariant, rate and flags;
   branchpoints; the init location; one edge per transition in order with resolved end points, the controllable flag, all
   selects in order and the last label of each other kind.  Nothing else in the builder state changes. *)
Theorem C04_reader_builder_identity D p m0 t cs m2 :
  read_templ m0 t = (Some cs, m2) -> wf_templ m2 t = true ->
  exists p', build cs (mkb D None p) = mkb (D ++ [doc_templ m2 t]) None p'.
Proof. exact (reader_builder_templ D p m0 t cs m2). Qed.
(* a transition with its labels in any order becomes exactly one edge with those labels *)
Theorem C04_edge D t p s d ctl labs :
  (is_loc t s || is_bp t s) && (is_loc t d || is_bp t d) = true ->
  build (EdgeBegin s d ctl :: flat_map read_label labs ++ [EdgeEnd]) (mkb D (Some t) p) =
  mkb D (Some (with_edges t (dt_edges t ++ [mk_edge s d ctl labs]))) PNone.
Proof. exact (build_edge D t p s d ctl labs). Qed.
Theorem C04_locations D p ls t :
  nodup_names (map dl_name (dt_locs t)) ls = true ->
  build (flat_map read_loc ls) (mkb D (Some t) p) = mkb D (Some (mkdtempl (dt_name t) (dt_locs t ++ map doc_loc ls) (dt_bps t) (dt_init t) (dt_edges t))) p.
Proof. exact (build_locs D p ls t). Qed.

Example C04_example :
  let t := mkxtempl 7 [mkxloc 0 (Some 5) (Some 100) None false true; mkxloc 1 None None None false false] [9] (Some 1)
                     [mkxedge 0 9 true [(KGuard, 200); (KSelect, 201); (KGuard, 202)]; mkxedge 9 1 false [(KProb, 203)]] in
  exists cs m, read_templ [] t = (Some cs, m) /\ wf_templ m t = true /\
    templates (build cs b0) = [mkdtempl 7 [mkdloc (Named 5) (Some 100) None false true; mkdloc (Anon 1) None None false false] [Anon 9] (Some (Anon 1))
       [mkdedge (Named 5) (Anon 9) true [201] (Some 202) None None None; mkdedge (Anon 9) (Anon 1) false [] None None None (Some 203)]].
Proof. eexists. eexists. split; [reflexivity|]. split; vm_compute; reflexivity. Qed.
