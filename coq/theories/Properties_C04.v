(* C04 — the document built from an XML model mirrors the XML's structure exactly (template part).
   DocModel.v: the reader's descent over a <template> element as a function to builder callbacks, and
   DocumentBuilder's proc_* callbacks; DocProofs.v: their composition is the identity on well-formed templates. *)
From Coq Require Import List Bool Arith.
From Utap Require Import DocModel DocProofs.
Import ListNotations.

(* For every template element (any number of locations, branchpoints, edges and labels in any order) that is well
   formed - location names distinct, no location both urgent and committed, init and all edge end points resolving to
   locations / branchpoints of the template - feeding the reader's callbacks to the builder appends exactly the
   document template that mirrors the element: locations in order with their name (or _id name), invariant, rate and flags;
   branchpoints; the init location; one edge per transition in order with resolved end points, the controllable flag, all
   selects in order and the last label of each other kind.  Nothing else in the builder state changes. *)
Theorem C04_reader_builder_identity D p m0 t cs m2 :
  read_templ m0 t = (Some cs, m2) -> wf_templ m2 t = true ->
  exists p', build cs (mkb D None p) = mkb (D ++ [doc_templ m2 t]) None p'.
Proof. exact (reader_builder_templ D p m0 t cs m2). Qed.
(* a transition with its labels in any order becomes exactly one edge with those labels *)
Theorem C04_edge D t p s d ctl labs :
  (is_loc t s || is_bp t s) && (is_loc t d || is_bp t d) = true ->
  build (EdgeBegin s d ctl :: flat_map read_label labs ++ [EdgeEnd]) (mkb D (Some t) p) =
  mkb D (Some (with_edges t (dt_edges t ++ [mk_edge s d ctl labs]))) PNone.
Proof. exact (build_edge D t p s d ctl labs). Qed.
Theorem C04_locations D p ls t :
  nodup_names (map dl_name (dt_locs t)) ls = true ->
  build (flat_map read_loc ls) (mkb D (Some t) p) = mkb D (Some (mkdtempl (dt_name t) (dt_locs t ++ map doc_loc ls) (dt_bps t) (dt_init t) (dt_edges t))) p.
Proof. exact (build_locs D p ls t). Qed.

Example C04_example :
  let t := mkxtempl 7 [mkxloc 0 (Some 5) (Some 100) None false true; mkxloc 1 None None None false false] [9] (Some 1)
                     [mkxedge 0 9 true [(KGuard, 200); (KSelect, 201); (KGuard, 202)]; mkxedge 9 1 false [(KProb, 203)]] in
  exists cs m, read_templ [] t = (Some cs, m) /\ wf_templ m t = true /\
    templates (build cs b0) = [mkdtempl 7 [mkdloc (Named 5) (Some 100) None false true; mkdloc (Anon 1) None None false false] [Anon 9] (Some (Anon 1))
       [mkdedge (Named 5) (Anon 9) true [201] (Some 202) None None None; mkdedge (Anon 9) (Anon 1) false [] None None None (Some 203)]].
Proof. eexists. eexists. split; [reflexivity|]. split; vm_compute; reflexivity. Qed.

(* ---- the invariant the type checker stores (RateModel.v: RateDecomposer::decompose of src/typechecker.cpp) ---- *)
From Utap Require Import Typing RateModel RateProofs.

(* For every invariant label visitLocation hands to the decomposer (class INVARIANT or INVARIANT_WR by the clauses of
   checkExpression), whatever its size and nesting: the conjuncts of the stored invariant are the top-level conjuncts of the
   label, in source order, none added, dropped or duplicated, except that the cost equations among them are taken out (they
   go to the location's cost rate). *)
Theorem C04_stored_invariant_conjuncts e : accepted e = true -> flat_all (stored e) = filter keeps (flat e).
Proof. exact (stored_conjuncts e). Qed.
Theorem C04_stored_invariant_without_cost e : accepted e = true -> forallb keeps (flat e) = true -> flat_all (stored e) = flat e.
Proof. exact (stored_rate_free e). Qed.
(* from any state of the decomposer (it is also the step of the induction) *)
Theorem C04_decompose_appends_conjuncts e s : accepted e = true ->
  flat_all (inv (decompose e false s)) = flat_all (inv s) ++ filter keeps (flat e).
Proof. exact (decompose_conjuncts e s). Qed.
(* below a quantifier or a disjunction nothing is recorded: the enclosing conjunct is, once *)
Theorem C04_inner_levels_record_nothing e s : inv (decompose e true s) = inv s.
Proof. exact (decompose_inner_keeps_invariant e s). Qed.
(* every cost equation of the label is counted, at any depth; the last one is the location's cost rate *)
Theorem C04_cost_rates e f s : accepted e = true ->
  ncost (decompose e f s) = ncost s + length (cost_rates e) /\ cost (decompose e f s) = last_opt (cost_rates e) (cost s).
Proof. exact (decompose_costs e f s). Qed.
(* the document stops a clock exactly when some equation of the label, at any depth, sets the rate of a clock *)
Theorem C04_stop_watch e f s : accepted e = true -> clockrates (decompose e f s) = clockrates s || has_clock_rate e.
Proof. exact (decompose_clock_rates e f s). Qed.
Theorem C04_strict_bound e f s : accepted e = true -> strict (decompose e f s) = strict s || strict_roots e.
Proof. exact (decompose_strict e f s). Qed.

(* under any interpretation of labels that reads a conjunction as a conjunction, the stored invariant together with the cost equations taken out of it
   means what the label means *)
Theorem C04_stored_invariant_meaning (sem : lexp -> bool) : (forall a b, sem (LAnd a b) = sem a && sem b) -> forall e, accepted e = true ->
  forallb sem (stored e) && forallb sem (filter is_cost_rate (flat e)) = sem e.
Proof. exact (stored_meaning sem). Qed.

(* x <= 5 && (cost' == 2 && forall (y' == 0)) && (b || x' == 1) && x < 3 *)
Example C04_rate_example :
  let e := LAnd (LAnd (LAnd (LLeaf CInvariant false 1) (LAnd (LRate true true 2 CInt) (LForall (LRate false true 3 CInt))))
                      (LOr (LLeaf CBool false 4) (LRate false true 5 CInt))) (LLeaf CInvariant true 6) in
  accepted e = true /\ plain e = false /\
  stored e = [LLeaf CInvariant false 1; LForall (LRate false true 3 CInt); LOr (LLeaf CBool false 4) (LRate false true 5 CInt); LLeaf CInvariant true 6] /\
  cost (decompose e false d0) = Some 2 /\ ncost (decompose e false d0) = 1 /\ clockrates (decompose e false d0) = true /\ strict (decompose e false d0) = true.
Proof. vm_compute. repeat split. Qed.

(* ---- template parameters in the 3.x syntax (ParamModel.v) ---- *)
From Utap Require ParamModel.
(* the callbacks the grammar issues for any list of parameter groups build exactly the parameters of the text: in order, nothing added or dropped, every name of
   an `int a, b` group a reference and every name of a `const a, b` group a constant by value; the stack of type fragments is left as it was found *)
Theorem C04_old_parameter_groups : forall gs, ParamModel.prun (ParamModel.cbs gs) (ParamModel.mkps [] [] false) = ParamModel.mkps [] (ParamModel.spec gs) false.
Proof. exact ParamModel.old_parameters. Qed.
Print Assumptions C04_old_parameter_groups.
Theorem C04_old_parameter_names : forall gs,
  map ParamModel.p_name (ParamModel.ps_params (ParamModel.prun (ParamModel.cbs gs) (ParamModel.mkps [] [] false))) = flat_map ParamModel.g_names gs.
Proof. exact ParamModel.old_parameter_names. Qed.
Print Assumptions C04_old_parameter_names.

