(* C08: model of the instance bookkeeping of Document::add_template / add_instance / add_process
   (src/document.cpp) as driven by DocumentBuilder::proc_begin / instantiation_end / process, and of the
   numbering of locations, branchpoints and edges.  Symbols are modelled by their identity (a fresh number per
   add_symbol), argument expressions by an opaque number. *)
From Coq Require Import List Arith Bool Lia Permutation.
Import ListNotations.

Definition sym := nat.
Record inst := mkinst { i_unbound : nat; i_params : list sym; i_map : list (sym * nat); i_arity : nat; i_templ : nat }.
Record st := mkst { s_next : sym; s_insts : list inst; s_procs : list inst }.
Definition st0 := mkst 0 [] [].

(* std::map::operator[] assignment *)
Fixpoint upd (m : list (sym * nat)) (k : sym) (v : nat) : list (sym * nat) :=
  match m with
  | [] => [(k, v)]
  | (k', v') :: r => if Nat.eqb k k' then (k, v) :: r else (k', v') :: upd r k v
  end.
Fixpoint bind (m : list (sym * nat)) (ps : list sym) (args : list nat) : list (sym * nat) :=
  match ps, args with
  | p :: ps', a :: args' => bind (upd m p a) ps' args'      (* instance.mapping[inst.parameters[i]] = arguments[i] *)
  | _, _ => m
  end.

Inductive op :=
| AddTemplate (nparams : nat)                              (* proc_begin: a template with nparams fresh parameter symbols *)
| AddInstance (from nparams : nat) (args : list nat)       (* instantiation_end: name = from(args) with nparams fresh parameters *)
| AddProcess (from : nat).                                 (* process: the system line *)

Definition step (s : st) (o : op) : st :=
  match o with
  | AddTemplate n =>
      mkst (s_next s + n) (s_insts s ++ [mkinst n (seq (s_next s) n) [] n (List.length (s_insts s))]) (s_procs s)
  | AddInstance from n args =>
      (* the parameter frame is pushed and popped whatever happens, so the fresh symbols are always consumed *)
      match nth_error (s_insts s) from with
      | Some old =>
          if Nat.eqb (List.length args) (i_arity old)      (* $Too_few_arguments / $Too_many_arguments otherwise *)
          then mkst (s_next s + n)
                    (s_insts s ++ [mkinst n (seq (s_next s) n ++ i_params old) (bind (i_map old) (i_params old) args) n (i_templ old)])
                    (s_procs s)
          else mkst (s_next s + n) (s_insts s) (s_procs s)
      | None => mkst (s_next s + n) (s_insts s) (s_procs s)
      end
  | AddProcess from =>
      match nth_error (s_insts s) from with
      | Some i => mkst (s_next s) (s_insts s) (s_procs s ++ [i])
      | None => s                                          (* NoSuchProcessError is thrown *)
      end
  end.
Definition run (os : list op) (s : st) : st := fold_left step os s.

(* the invariant of the statement, for one instance *)
Definition keys (m : list (sym * nat)) : list sym := map fst m.
Definition inst_ok (i : inst) : Prop :=
  i_unbound i <= List.length (i_params i)                                  (* the unbound parameters are a prefix of the parameters *)
  /\ NoDup (i_params i)
  /\ Permutation (keys (i_map i)) (skipn (i_unbound i) (i_params i))      (* exactly the other parameters are mapped, each once *)
  /\ i_arity i = i_unbound i.                                              (* the type's arity *)
Definition below (n : nat) (i : inst) : Prop := Forall (fun p => p < n) (i_params i).
Definition Inv (s : st) : Prop :=
  Forall inst_ok (s_insts s) /\ Forall inst_ok (s_procs s) /\ Forall (below (s_next s)) (s_insts s).

(* executable form, used by the correspondence check and to test the statement *)
Definition inst_okb (i : inst) : bool :=
  Nat.leb (i_unbound i) (List.length (i_params i))
  && forallb (fun p => negb (existsb (Nat.eqb p) (keys (i_map i)))) (firstn (i_unbound i) (i_params i))
  && forallb (fun p => existsb (Nat.eqb p) (keys (i_map i))) (skipn (i_unbound i) (i_params i))
  && Nat.eqb (List.length (i_map i)) (List.length (i_params i) - i_unbound i)
  && Nat.eqb (i_arity i) (i_unbound i).

(* ---- numbering: add_location / add_branchpoint / add_edge give the new element the current size ---- *)
Definition add_nr (nrs : list nat) : list nat := nrs ++ [List.length nrs].

(* ---- back pointers: every add_* creates a new symbol whose user data is the new object; objects live in
        containers with stable addresses (std::list / std::deque), modelled by (container, index) ---- *)
Record symtab := mksymtab { y_syms : list (nat * (nat * nat));       (* name, user data = (container, index) *)
                            y_objs : list (list nat) }.              (* per container: the uid (symbol index) of each object *)
Definition y_add (t : symtab) (container name : nat) : symtab :=
  let objs := nth container (y_objs t) [] in
  let uid := List.length (y_syms t) in
  mksymtab (y_syms t ++ [(name, (container, List.length objs))])
           (firstn container (y_objs t ++ repeat [] (S container - List.length (y_objs t)))
            ++ [objs ++ [uid]] ++ skipn (S container) (y_objs t ++ repeat [] (S container - List.length (y_objs t)))).
Definition y_ok (t : symtab) : Prop :=
  forall c i u, nth_error (nth c (y_objs t) []) i = Some u -> exists name, nth_error (y_syms t) u = Some (name, (c, i)).
