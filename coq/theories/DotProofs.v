(* C07: process-qualified names.  Proofs about DotModel.v. *)
From Coq Require Import List Arith Bool ZArith Lia Permutation.
From Utap Require Import Scope ScopeProofs DotModel.
Import ListNotations.

(* ---------- which member ---------- *)
Lemma find_index_spec {A} (fr : list (name * A)) x i :
  find_index x fr = Some i -> (exists a, nth_error fr i = Some (x, a)) /\ forall j b, j < i -> nth_error fr j = Some b -> fst b <> x.
Proof.
  revert i; induction fr as [|[n a] fr IH]; intros i; cbn; [discriminate|].
  destruct (Nat.eqb_spec n x) as [->|Hn].
  - intros [= <-]. split; [eexists; reflexivity | intros j b Hj; lia].
  - destruct (find_index x fr) as [i'|] eqn:E; cbn; [|discriminate]. intros [= <-].
    destruct (IH _ eq_refl) as [[a' Ha] Hlt]. split; [exists a'; exact Ha|].
    intros [|j] b Hj; cbn; [intros [= <-]; exact Hn | intro Hb; apply (Hlt j b); [lia | exact Hb]].
Qed.
Lemma find_index_none {A} (fr : list (name * A)) x : find_index x fr = None <-> ~ In x (map fst fr).
Proof.
  induction fr as [|[n a] fr IH]; cbn; [tauto|].
  destruct (Nat.eqb_spec n x) as [->|Hn]; [split; [discriminate | intro H; exfalso; apply H; left; reflexivity]|].
  destruct (find_index x fr); cbn; split; try discriminate; intro H.
  - exfalso. destruct IH as [_ IH]. discriminate IH. intro Hin. apply H. right. exact Hin.
  - intros [E|Hin]; [congruence | destruct IH as [IH _]; apply (IH eq_refl Hin)].
  - reflexivity.
Qed.
Lemma first_member_nearest {A} (fr : list (name * A)) x :
  first_member fr x = (fix near (l : list (name * A)) := match l with [] => None | (k, d) :: r => if Nat.eqb k x then Some d else near r end) fr.
Proof.
  unfold first_member. induction fr as [|[n a] fr IH]; cbn; [reflexivity|].
  destruct (Nat.eqb n x); [reflexivity|]. destruct (find_index x fr); cbn in *; exact IH.
Qed.
Lemma first_member_is_nearest (ds : list (name * did)) x : first_member ds x = nearest ds x.
Proof. rewrite first_member_nearest. induction ds as [|[k d] r IH]; cbn; [reflexivity | destruct (Nat.eqb k x); [reflexivity | exact IH]]. Qed.
Lemma nearest_app a b x : nearest (a ++ b) x = match nearest a x with Some d => Some d | None => nearest b x end.
Proof. induction a as [|[k d] a IH]; cbn; [reflexivity | destruct (Nat.eqb k x); [reflexivity | exact IH]]. Qed.
Lemma nearest_notin ds x : ~ In x (map fst ds) -> nearest ds x = None.
Proof. induction ds as [|[k d] r IH]; cbn; [reflexivity|]. intro H. destruct (Nat.eqb_spec k x); [exfalso; apply H; left; assumption | apply IH; tauto]. Qed.
Lemma nearest_rev ds x : NoDup (map fst ds) -> nearest (rev ds) x = nearest ds x.
Proof.
  induction ds as [|[k d] r IH]; cbn; [reflexivity|]. intro H. inversion H as [|? ? Hk Hr]; subst.
  rewrite nearest_app, (IH Hr). cbn. destruct (Nat.eqb_spec k x) as [->|Hn].
  - now rewrite (nearest_notin _ _ Hk).
  - destruct (nearest r x); reflexivity.
Qed.

(* P.x selects the symbol an unqualified x resolves to in the template's own frame, when the frame declares no name twice
   (a frame that does is reported: "Duplicate definition") *)
Theorem qualified_is_unqualified (f : frame) (ds : list (name * did)) (x : name) :
  rep f ds -> NoDup (map fst ds) -> first_member (f_syms f) x = frame_lookup f x.
Proof.
  intros (Hs & _ & Hl) Hnd. rewrite Hs, Hl, first_member_is_nearest. apply nearest_rev, Hnd.
Qed.
(* ... and differs when it does: first against last *)
Example qualified_differs_on_duplicates :
  let f := add_symbol (add_symbol empty_frame 1 10) 1 11 in first_member (f_syms f) 1 = Some 10 /\ frame_lookup f 1 = Some 11.
Proof. split; reflexivity. Qed.

Theorem dot_sound (p : proc) x i t :
  dot p x = Some (i, t) ->
  exists t0, nth_error (p_frame p) i = Some (x, t0) /\ (forall j b, j < i -> nth_error (p_frame p) j = Some b -> fst b <> x) /\
             t = if is_loc t0 then TBool else subst_rounds (p_map p) (trename (p_templ p) (p_id p) t0).
Proof.
  unfold dot. destruct (find_index x (p_frame p)) as [i'|] eqn:E; [|discriminate].
  destruct (find_index_spec _ _ _ E) as [[t0 Ht0] Hlt]. unfold member in *. rewrite Ht0. intros [= <- <-]. exists t0. auto.
Qed.
(* only the template's own frame is searched: a global of that name is not a member *)
Theorem dot_none_iff (p : proc) x : dot p x = None <-> ~ In x (map fst (p_frame p)).
Proof.
  unfold dot. rewrite <- find_index_none. destruct (find_index x (p_frame p)) as [i|] eqn:E; [|tauto].
  destruct (find_index_spec _ _ _ E) as [[t0 Ht0] _]. unfold member in *. rewrite Ht0. split; discriminate.
Qed.

(* ---------- what the substituted type means ---------- *)
Lemma bexp_ind' (P : bexp -> Prop) :
  (forall z, P (BLit z)) -> (forall s, P (BVar s)) -> (forall o args, Forall P args -> P (BOp o args)) -> forall b, P b.
Proof.
  intros Hl Hv Ho. fix IH 1. intros [z|s|o args]; [apply Hl | apply Hv | apply Ho].
  induction args as [|a args IHa]; constructor; [apply IH | exact IHa].
Qed.

Section Meaning.
  Variable V : Type.
  Variable lit : Z -> V.
  Variable opsem : nat -> list V -> V.
  Notation beval := (beval V lit opsem).
  Notation env_of := (env_of V lit opsem).
  Notation upd := (upd V).

  Lemma eval_bsubst r x e b : beval r (bsubst x e b) = beval (upd r x (beval r e)) b.
  Proof.
    induction b as [z|s|o args IH] using bexp_ind'; cbn; [reflexivity | |].
    - unfold DotModel.upd. destruct (Nat.eqb s x); reflexivity.
    - f_equal. rewrite map_map. apply map_ext_in. intros a Ha. rewrite Forall_forall in IH. apply IH, Ha.
  Qed.
  Theorem eval_bsubst_all m : forall r b, beval r (bsubst_all m b) = beval (env_of m r) b.
  Proof.
    induction m as [|[x e] m IH]; intros r b; [reflexivity|].
    change (bsubst_all ((x, e) :: m) b) with (bsubst_all m (bsubst x e b)). rewrite IH, eval_bsubst. reflexivity.
  Qed.
End Meaning.

Lemma bounds_subst_all m : forall t, bounds_of (subst_all m t) = map (bsubst_all m) (bounds_of t).
Proof.
  induction m as [|[x e] m IH]; intro t; [destruct t; cbn; rewrite ?map_id; reflexivity|].
  change (subst_all ((x, e) :: m) t) with (subst_all m (tsubst x e t)). rewrite IH. destruct t; try reflexivity.
  cbn. rewrite map_map. reflexivity.
Qed.
Lemma bounds_subst_rounds m t : bounds_of (subst_rounds m t) = map (bsubst_rounds m) (bounds_of t).
Proof.
  unfold subst_rounds, bsubst_rounds. induction (length m) as [|n IH]; cbn; [now rewrite map_id|].
  rewrite bounds_subst_all, IH, map_map. reflexivity.
Qed.
Lemma bounds_rename a b t : bounds_of (trename a b t) = bounds_of t.
Proof. destruct t; reflexivity. Qed.

(* ---------- the order of a pass does not matter ---------- *)
Lemma bsubst_notin x e b : ~ In x (fv b) -> bsubst x e b = b.
Proof.
  induction b as [z|s|o args IH] using bexp_ind'; cbn; intro H; [reflexivity | |].
  - destruct (Nat.eqb_spec s x) as [->|]; [exfalso; apply H; left; reflexivity | reflexivity].
  - f_equal. rewrite <- (map_id args) at 2. apply map_ext_in. intros a Ha. rewrite Forall_forall in IH. apply IH; [exact Ha|].
    intro Hx. apply H. apply in_flat_map. exists a. auto.
Qed.
Lemma bsubst_all_op m : forall o args, bsubst_all m (BOp o args) = BOp o (map (bsubst_all m) args).
Proof.
  induction m as [|[x e] m IH]; intros o args; [cbn; now rewrite map_id|].
  change (bsubst_all ((x, e) :: m) (BOp o args)) with (bsubst_all m (BOp o (map (bsubst x e) args))). rewrite IH, map_map. reflexivity.
Qed.
Lemma bsubst_all_lit m z : bsubst_all m (BLit z) = BLit z.
Proof. induction m as [|[x e] m IH]; [reflexivity | exact IH]. Qed.
Lemma bsubst_all_nokeys m : forall b, (forall y, In y (fv b) -> ~ In y (map fst m)) -> bsubst_all m b = b.
Proof.
  induction m as [|[x e] m IH]; intros b H; [reflexivity|].
  change (bsubst_all ((x, e) :: m) b) with (bsubst_all m (bsubst x e b)).
  rewrite bsubst_notin; [apply IH; intros y Hy Hin; apply (H y Hy); right; exact Hin | intro Hx; apply (H x Hx); left; reflexivity].
Qed.
Lemma tri_weaken m : forall seen seen', (forall y, In y seen' -> In y seen) -> tri seen m -> tri seen' m.
Proof.
  induction m as [|[x e] m IH]; intros seen seen' Hs; [trivial|]. intros (H1 & H2 & H3). repeat split.
  - intro H. apply H1, Hs, H.
  - apply (H2 y H).
  - intro Hy. apply (proj2 (H2 y H)), Hs, Hy.
  - apply (IH (x :: seen)); [|exact H3]. intros y [->|Hy]; [left; reflexivity | right; apply Hs, Hy].
Qed.
Lemma tri_key_notin m : forall seen x e, tri seen m -> In (x, e) m -> ~ In x seen.
Proof.
  induction m as [|[x0 e0] m IH]; intros seen x e; [intros _ []|]. intros (H1 & H2 & H3) [E|Hin]; [injection E as <- <-; exact H1|].
  intro Hs. apply (IH _ _ _ H3 Hin). right. exact Hs.
Qed.
Lemma tri_fv_notin m : forall seen x e y, tri seen m -> In (x, e) m -> In y (fv e) -> ~ In y seen.
Proof.
  induction m as [|[x0 e0] m IH]; intros seen x e y; [intros _ []|]. intros (H1 & H2 & H3) [E|Hin] Hy; [injection E as <- <-; apply (H2 y Hy)|].
  intro Hs. apply (IH _ _ _ _ H3 Hin Hy). right. exact Hs.
Qed.
(* the full substitution gives a parameter and its argument the same image *)
Lemma full_key m : forall seen x e, tri seen m -> In (x, e) m -> bsubst_all m (BVar x) = bsubst_all m e.
Proof.
  induction m as [|[x0 e0] m IH]; intros seen x e; [intros _ []|]. intros (H1 & H2 & H3) [E|Hin].
  - injection E as <- <-. change (bsubst_all m (bsubst x0 e0 (BVar x0)) = bsubst_all m (bsubst x0 e0 e0)).
    rewrite (bsubst_notin x0 e0 e0) by (intro H; destruct (H2 _ H) as [H' _]; apply H'; reflexivity). cbn. now rewrite Nat.eqb_refl.
  - change (bsubst_all m (bsubst x0 e0 (BVar x)) = bsubst_all m (bsubst x0 e0 e)).
    assert (x <> x0) as Hne by (intro E; apply (tri_key_notin _ _ _ _ H3 Hin); left; symmetry; exact E).
    rewrite (bsubst_notin x0 e0 e) by (intro H; apply (tri_fv_notin _ _ _ _ _ H3 Hin H); left; reflexivity).
    cbn. destruct (Nat.eqb_spec x x0); [contradiction|]. apply (IH _ _ _ H3 Hin).
Qed.
Lemma full_step m x e b : triangular m -> In (x, e) m -> bsubst_all m (bsubst x e b) = bsubst_all m b.
Proof.
  intros Ht Hin. induction b as [z|s|o args IH] using bexp_ind'; cbn; [reflexivity | |].
  - destruct (Nat.eqb_spec s x) as [->|]; [symmetry; apply (full_key _ _ _ _ Ht Hin) | reflexivity].
  - rewrite !bsubst_all_op, map_map. f_equal. apply map_ext_in. intros a Ha. rewrite Forall_forall in IH. apply IH, Ha.
Qed.
Lemma full_pass m m' : triangular m -> (forall xe, In xe m' -> In xe m) -> forall b, bsubst_all m (bsubst_all m' b) = bsubst_all m b.
Proof.
  intros Ht. induction m' as [|[x e] m' IH]; intros Hsub b; [reflexivity|].
  change (bsubst_all ((x, e) :: m') b) with (bsubst_all m' (bsubst x e b)).
  rewrite IH by (intros xe H; apply Hsub; right; exact H). apply full_step; [exact Ht | apply Hsub; left; reflexivity].
Qed.
(* how many levels are wrapped around a parameter *)
Fixpoint rank (m : list (sym * bexp)) (y : sym) : nat :=
  match m with [] => 0 | (x, _) :: rest => if Nat.eqb y x then S (length rest) else rank rest y end.
Lemma rank_le m y : rank m y <= length m.
Proof. induction m as [|[x e] m IH]; cbn; [lia | destruct (Nat.eqb y x); lia]. Qed.
Lemma rank_pos m y : 0 < rank m y <-> In y (map fst m).
Proof.
  induction m as [|[x e] m IH]; cbn; [split; [lia | tauto]|]. destruct (Nat.eqb_spec y x) as [->|Hn]; [split; [auto | lia]|].
  rewrite IH. split; [auto | intros [E|H]; [congruence | exact H]].
Qed.
Lemma rank_lt m : forall seen x e y, tri seen m -> In (x, e) m -> In y (fv e) -> rank m y < rank m x.
Proof.
  induction m as [|[x0 e0] m IH]; intros seen x e y; [intros _ []|]. intros (H1 & H2 & H3) [E|Hin] Hy; cbn.
  - injection E as <- <-. rewrite Nat.eqb_refl. destruct (Nat.eqb_spec y x0) as [->|]; [destruct (H2 _ Hy) as [H' _]; contradiction|].
    pose proof (rank_le m y). lia.
  - assert (x <> x0) as Hne by (intro E; apply (tri_key_notin _ _ _ _ H3 Hin); left; symmetry; exact E).
    assert (y <> x0) as Hny by (intro E; apply (tri_fv_notin _ _ _ _ _ H3 Hin Hy); left; symmetry; exact E).
    destruct (Nat.eqb_spec x x0); [contradiction|]. destruct (Nat.eqb_spec y x0); [contradiction|]. apply (IH _ _ _ _ H3 Hin Hy).
Qed.
Lemma fv_bsubst' x e b y : In y (fv (bsubst x e b)) -> (In y (fv b) /\ y <> x) \/ (In y (fv e) /\ In x (fv b)).
Proof.
  induction b as [z|s|o args IH] using bexp_ind'; cbn; [tauto | |].
  - destruct (Nat.eqb_spec s x) as [->|Hn]; cbn; [tauto|]. intros [<-|[]]. left. split; [left; reflexivity | exact Hn].
  - rewrite !in_flat_map. intros (a' & Ha' & Hy). apply in_map_iff in Ha' as (a & <- & Ha). rewrite Forall_forall in IH.
    destruct (IH a Ha Hy) as [[H1 H2]|[H1 H2]]; [left; split; [exists a; auto | exact H2] | right; split; [exact H1 | exists a; auto]].
Qed.
(* one pass, in any order, lowers the highest level that still occurs *)
Lemma pass_lowers m h : triangular m -> forall rem b, (forall xe, In xe rem -> In xe m) ->
  (forall y, In y (fv b) -> rank m y <= S h /\ (rank m y = S h -> In y (map fst rem))) ->
  forall y, In y (fv (bsubst_all rem b)) -> rank m y <= h.
Proof.
  intros Ht. induction rem as [|[x e] rem IH]; intros b Hsub Hb y Hy.
  - destruct (Hb y Hy) as [H1 H2]. destruct (Nat.eq_dec (rank m y) (S h)) as [E|]; [destruct (H2 E) | lia].
  - change (bsubst_all ((x, e) :: rem) b) with (bsubst_all rem (bsubst x e b)) in Hy.
    apply (IH (bsubst x e b)); [intros xe H; apply Hsub; right; exact H | | exact Hy].
    intros z Hz. destruct (fv_bsubst' _ _ _ _ Hz) as [[H1 H2]|[H1 H2]].
    + destruct (Hb z H1) as [H3 H4]. split; [exact H3|]. intro E. destruct (H4 E) as [E'|H5]; [cbn in E'; congruence | exact H5].
    + pose proof (rank_lt m [] x e z Ht (Hsub _ (or_introl eq_refl)) H1). destruct (Hb x H2) as [H3 _]. split; [lia | intro; lia].
Qed.
Lemma rounds_lower m m' : triangular m -> Permutation m m' -> forall k b,
  (forall y, In y (fv b) -> rank m y <= k) -> forall y, In y (fv (iter k (bsubst_all m') b)) -> rank m y = 0.
Proof.
  intros Ht Hp. assert (forall j k b, (forall y, In y (fv b) -> rank m y <= j + k) -> forall y, In y (fv (iter k (bsubst_all m') b)) -> rank m y <= j) as H.
  { intros j k. revert j. induction k as [|k IH]; intros j b Hb y Hy; [cbn in Hy; specialize (Hb y Hy); lia|].
    cbn in Hy. apply (pass_lowers m j Ht m' (iter k (bsubst_all m') b)); [intros xe H; apply (Permutation_in _ (Permutation_sym Hp) H) | | exact Hy].
    intros z Hz. split; [apply (IH (S j) b); [intros w Hw; specialize (Hb w Hw); lia | exact Hz]|].
    intro E. apply (Permutation_in z (Permutation_map fst Hp)). apply rank_pos. lia. }
  intros k b Hb y Hy. specialize (H 0 k b Hb y Hy). lia.
Qed.
(* the result of the code's passes is the substitution of the chain, innermost level first, whatever order the map iterates in *)
Theorem rounds_any_order m m' b : triangular m -> Permutation m m' -> bsubst_rounds m' b = bsubst_all m b.
Proof.
  intros Ht Hp. unfold bsubst_rounds.
  assert (forall k c, bsubst_all m (iter k (bsubst_all m') c) = bsubst_all m c) as Hs.
  { induction k as [|k IH]; intro c; [reflexivity|]. cbn. rewrite full_pass; [apply IH | exact Ht | intros xe H; apply (Permutation_in _ (Permutation_sym Hp) H)]. }
  rewrite <- (Hs (length m') b). symmetry. apply bsubst_all_nokeys. intros y Hy Hk.
  rewrite <- (Permutation_length Hp) in Hy.
  pose proof (rounds_lower m m' Ht Hp (length m) b (fun z _ => rank_le m z) y Hy). apply rank_pos in Hk. lia.
Qed.
(* and no parameter of the chain is left in it *)
Theorem rounds_closed m m' b y : triangular m -> Permutation m m' -> In y (fv (bsubst_rounds m' b)) -> ~ In y (map fst m).
Proof.
  intros Ht Hp Hy Hk. unfold bsubst_rounds in Hy. rewrite <- (Permutation_length Hp) in Hy.
  pose proof (rounds_lower m m' Ht Hp (length m) b (fun z _ => rank_le m z) y Hy). apply rank_pos in Hk. lia.
Qed.

(* every bound of the type of P.x denotes, in any environment and under any meaning of the operators, what the declared bound
   denotes in the environment the instantiation chain of P builds from its arguments *)
Theorem dot_bound_meaning (p : proc) (m : list (sym * bexp)) x i t t0 :
  triangular m -> Permutation m (p_map p) ->
  dot p x = Some (i, t) -> nth_error (p_frame p) i = Some (x, t0) -> is_loc t0 = false ->
  length (bounds_of t) = length (bounds_of t0) /\
  forall V lit opsem r k b b', nth_error (bounds_of t0) k = Some b -> nth_error (bounds_of t) k = Some b' ->
    beval V lit opsem r b' = beval V lit opsem (env_of V lit opsem m r) b.
Proof.
  intros Ht Hp Hd Hn Hl. destruct (dot_sound _ _ _ _ Hd) as (t0' & Hn' & _ & ->). rewrite Hn in Hn'. injection Hn' as <-. rewrite Hl.
  rewrite bounds_subst_rounds, bounds_rename. split; [apply map_length|].
  intros V lit opsem r k b b' Hb Hb'. rewrite nth_error_map, Hb in Hb'. injection Hb' as <-.
  rewrite (rounds_any_order m _ b Ht Hp). apply eval_bsubst_all.
Qed.
Theorem dot_no_parameter_left (p : proc) (m : list (sym * bexp)) x i t b y :
  triangular m -> Permutation m (p_map p) -> dot p x = Some (i, t) -> In b (bounds_of t) -> In y (fv b) -> ~ In y (map fst m).
Proof.
  intros Ht Hp Hd Hb Hy. destruct (dot_sound _ _ _ _ Hd) as (t0 & _ & _ & ->).
  destruct (is_loc t0); [destruct Hb|]. rewrite bounds_subst_rounds, bounds_rename in Hb. apply in_map_iff in Hb as (b0 & <- & _).
  exact (rounds_closed m _ b0 y Ht Hp Hy).
Qed.

(* a single pass is not enough when the map happens to iterate the outer level first *)
Example one_pass_depends_on_order :
  let m := [(1, BOp 0 [BVar 2; BLit 1000]); (2, BLit 3)] in
  bsubst_all m (BVar 1) = BOp 0 [BLit 3; BLit 1000] /\ bsubst_all (rev m) (BVar 1) = BOp 0 [BVar 2; BLit 1000] /\
  bsubst_rounds (rev m) (BVar 1) = BOp 0 [BLit 3; BLit 1000].
Proof. repeat split; reflexivity. Qed.
(* only identifiers are replaced: an index or field expression rooted at a parameter keeps its shape *)
Example subst_keeps_structure :
  bsubst 1 (BVar 9) (BOp 2 [BVar 1; BLit 1]) = BOp 2 [BVar 9; BLit 1].
Proof. reflexivity. Qed.

Example dot_example :
  (* T(const int[0,2000] n) { int[0,n+105] v; clock x; L0 }   Q(k) = T(k + 1000);  P = Q(3); the map iterates k before n *)
  let p := mkproc 9 7 [(1, TConstRange (BLit 0) (BLit 2000)); (2, TRange (BLit 0) (BOp 0 [BVar 1; BLit 105])); (3, TClock); (4, TLoc)] [(2, BLit 3); (1, BOp 0 [BVar 2; BLit 1000])] in
  dot p 2 = Some (1, TRange (BLit 0) (BOp 0 [BOp 0 [BLit 3; BLit 1000]; BLit 105])) /\ dot p 4 = Some (3, TBool) /\ dot p 5 = None /\
  triangular (rev (p_map p)).
Proof. cbn. repeat split; try reflexivity; try tauto; intros; cbn in *; intuition (try lia; try discriminate). Qed.
