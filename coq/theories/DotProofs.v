(* C07: process-qualified names.  Proofs about DotModel.v. *)
From Coq Require Import List Arith Bool ZArith Lia.
From Utap Require Import Scope ScopeProofs DotModel.
Import ListNotations.

(* ---------- which member ---------- *)
Lemma find_index_spec {A} (fr : list (name * A)) x i :
  find_index x fr = Some i -> (exists a, nth_error fr i = Some (x, a)) /\ forall j b, j < i -> nth_error fr j = Some b -> fst b <> x.
Proof.
  revert i; induction fr as [|[n a] fr IH]; intros i; cbn; [discriminate|].
  destruct (Nat.eqb_spec n x) as [->|Hn].
  - intros [= <-]. split; [eexists; reflexivity | intros j b Hj; lia].
  - destruct (find_index x fr) as [i'|] eqn:E; cbn; [|discriminate]. intros [= <-].
    destruct (IH _ eq_refl) as [[a' Ha] Hlt]. split; [exists a'; exact Ha|].
    intros [|j] b Hj; cbn; [intros [= <-]; exact Hn | intro Hb; apply (Hlt j b); [lia | exact Hb]].
Qed.
Lemma find_index_none {A} (fr : list (name * A)) x : find_index x fr = None <-> ~ In x (map fst fr).
Proof.
  induction fr as [|[n a] fr IH]; cbn; [tauto|].
  destruct (Nat.eqb_spec n x) as [->|Hn]; [split; [discriminate | intro H; exfalso; apply H; left; reflexivity]|].
  destruct (find_index x fr); cbn; split; try discriminate; intro H.
  - exfalso. destruct IH as [_ IH]. discriminate IH. intro Hin. apply H. right. exact Hin.
  - intros [E|Hin]; [congruence | destruct IH as [IH _]; apply (IH eq_refl Hin)].
  - reflexivity.
Qed.
Lemma first_member_nearest {A} (fr : list (name * A)) x :
  first_member fr x = (fix near (l : list (name * A)) := match l with [] => None | (k, d) :: r => if Nat.eqb k x then Some d else near r end) fr.
Proof.
  unfold first_member. induction fr as [|[n a] fr IH]; cbn; [reflexivity|].
  destruct (Nat.eqb n x); [reflexivity|]. destruct (find_index x fr); cbn in *; exact IH.
Qed.
Lemma first_member_is_nearest (ds : list (name * did)) x : first_member ds x = nearest ds x.
Proof. rewrite first_member_nearest. induction ds as [|[k d] r IH]; cbn; [reflexivity | destruct (Nat.eqb k x); [reflexivity | exact IH]]. Qed.
Lemma nearest_app a b x : nearest (a ++ b) x = match nearest a x with Some d => Some d | None => nearest b x end.
Proof. induction a as [|[k d] a IH]; cbn; [reflexivity | destruct (Nat.eqb k x); [reflexivity | exact IH]]. Qed.
Lemma nearest_notin ds x : ~ In x (map fst ds) -> nearest ds x = None.
Proof. induction ds as [|[k d] r IH]; cbn; [reflexivity|]. intro H. destruct (Nat.eqb_spec k x); [exfalso; apply H; left; assumption | apply IH; tauto]. Qed.
Lemma nearest_rev ds x : NoDup (map fst ds) -> nearest (rev ds) x = nearest ds x.
Proof.
  induction ds as [|[k d] r IH]; cbn; [reflexivity|]. intro H. inversion H as [|? ? Hk Hr]; subst.
  rewrite nearest_app, (IH Hr). cbn. destruct (Nat.eqb_spec k x) as [->|Hn].
  - now rewrite (nearest_notin _ _ Hk).
  - destruct (nearest r x); reflexivity.
Qed.

(* P.x selects the symbol an unqualified x resolves to in the template's own frame, when the frame declares no name twice
   (a frame that does is reported: "Duplicate definition") *)
Theorem qualified_is_unqualified (f : frame) (ds : list (name * did)) (x : name) :
  rep f ds -> NoDup (map fst ds) -> first_member (f_syms f) x = frame_lookup f x.
Proof.
  intros (Hs & _ & Hl) Hnd. rewrite Hs, Hl, first_member_is_nearest. apply nearest_rev, Hnd.
Qed.
(* ... and differs when it does: first against last *)
Example qualified_differs_on_duplicates :
  let f := add_symbol (add_symbol empty_frame 1 10) 1 11 in first_member (f_syms f) 1 = Some 10 /\ frame_lookup f 1 = Some 11.
Proof. split; reflexivity. Qed.

Theorem dot_sound (p : proc) x i t :
  dot p x = Some (i, t) ->
  exists t0, nth_error (p_frame p) i = Some (x, t0) /\ (forall j b, j < i -> nth_error (p_frame p) j = Some b -> fst b <> x) /\
             t = if is_loc t0 then TBool else subst_all (p_map p) (trename (p_templ p) (p_id p) t0).
Proof.
  unfold dot. destruct (find_index x (p_frame p)) as [i'|] eqn:E; [|discriminate].
  destruct (find_index_spec _ _ _ E) as [[t0 Ht0] Hlt]. unfold member in *. rewrite Ht0. intros [= <- <-]. exists t0. auto.
Qed.
(* only the template's own frame is searched: a global of that name is not a member *)
Theorem dot_none_iff (p : proc) x : dot p x = None <-> ~ In x (map fst (p_frame p)).
Proof.
  unfold dot. rewrite <- find_index_none. destruct (find_index x (p_frame p)) as [i|] eqn:E; [|tauto].
  destruct (find_index_spec _ _ _ E) as [[t0 Ht0] _]. unfold member in *. rewrite Ht0. split; discriminate.
Qed.

(* ---------- what the substituted type means ---------- *)
Lemma bexp_ind' (P : bexp -> Prop) :
  (forall z, P (BLit z)) -> (forall s, P (BVar s)) -> (forall o args, Forall P args -> P (BOp o args)) -> forall b, P b.
Proof.
  intros Hl Hv Ho. fix IH 1. intros [z|s|o args]; [apply Hl | apply Hv | apply Ho].
  induction args as [|a args IHa]; constructor; [apply IH | exact IHa].
Qed.

Section Meaning.
  Variable V : Type.
  Variable lit : Z -> V.
  Variable opsem : nat -> list V -> V.
  Notation beval := (beval V lit opsem).
  Notation env_of := (env_of V lit opsem).
  Notation upd := (upd V).

  Lemma eval_bsubst r x e b : beval r (bsubst x e b) = beval (upd r x (beval r e)) b.
  Proof.
    induction b as [z|s|o args IH] using bexp_ind'; cbn; [reflexivity | |].
    - unfold DotModel.upd. destruct (Nat.eqb s x); reflexivity.
    - f_equal. rewrite map_map. apply map_ext_in. intros a Ha. rewrite Forall_forall in IH. apply IH, Ha.
  Qed.
  Theorem eval_bsubst_all m : forall r b, beval r (bsubst_all m b) = beval (env_of m r) b.
  Proof.
    induction m as [|[x e] m IH]; intros r b; [reflexivity|].
    change (bsubst_all ((x, e) :: m) b) with (bsubst_all m (bsubst x e b)). rewrite IH, eval_bsubst. reflexivity.
  Qed.
End Meaning.

Lemma bounds_subst_all m : forall t, bounds_of (subst_all m t) = map (bsubst_all m) (bounds_of t).
Proof.
  induction m as [|[x e] m IH]; intro t; [destruct t; reflexivity|].
  change (subst_all ((x, e) :: m) t) with (subst_all m (tsubst x e t)). rewrite IH. destruct t; reflexivity.
Qed.
Lemma bounds_rename a b t : bounds_of (trename a b t) = bounds_of t.
Proof. destruct t; reflexivity. Qed.

(* every bound of the type of P.x denotes, in any environment and under any meaning of the operators, what the declared bound
   denotes in the environment the instantiation chain of P builds from its arguments *)
Theorem dot_bound_meaning (p : proc) x i t t0 :
  dot p x = Some (i, t) -> nth_error (p_frame p) i = Some (x, t0) -> is_loc t0 = false ->
  exists bs', bounds_of t = bs' /\ length bs' = length (bounds_of t0) /\
    forall V lit opsem r k b b', nth_error (bounds_of t0) k = Some b -> nth_error bs' k = Some b' ->
      beval V lit opsem r b' = beval V lit opsem (env_of V lit opsem (p_map p) r) b.
Proof.
  intros Hd Hn Hl. destruct (dot_sound _ _ _ _ Hd) as (t0' & Hn' & _ & ->). rewrite Hn in Hn'. injection Hn' as <-. rewrite Hl.
  rewrite bounds_subst_all, bounds_rename. eexists; split; [reflexivity|]. split; [apply map_length|].
  intros V lit opsem r k b b' Hb Hb'. rewrite nth_error_map, Hb in Hb'. injection Hb' as <-. apply eval_bsubst_all.
Qed.

(* after the whole chain has been substituted no parameter is left *)
Lemma fv_bsubst x e b y : In y (fv (bsubst x e b)) -> (In y (fv b) /\ y <> x) \/ In y (fv e).
Proof.
  induction b as [z|s|o args IH] using bexp_ind'; cbn; [tauto | |].
  - destruct (Nat.eqb_spec s x) as [->|Hn]; cbn; [tauto|]. intros [<-|[]]. left. split; [left; reflexivity | exact Hn].
  - rewrite !in_flat_map. intros (a' & Ha' & Hy). apply in_map_iff in Ha' as (a & <- & Ha). rewrite Forall_forall in IH.
    destruct (IH a Ha Hy) as [[H1 H2]|H]; [left; split; [exists a; auto | exact H2] | right; exact H].
Qed.
Theorem bsubst_all_closed m : forall b, triangular m -> (forall y, In y (fv b) -> In y (map fst m)) -> fv (bsubst_all m b) = [].
Proof.
  induction m as [|[x e] m IH]; intros b Ht Hb.
  - cbn in *. destruct (fv b) as [|y l]; [reflexivity | destruct (Hb y (or_introl eq_refl))].
  - destruct Ht as (He & _ & Ht). change (bsubst_all ((x, e) :: m) b) with (bsubst_all m (bsubst x e b)). apply IH; [exact Ht|].
    intros y Hy. destruct (fv_bsubst _ _ _ _ Hy) as [[Hy1 Hne]|Hy1]; [|apply He, Hy1].
    destruct (Hb y Hy1) as [E|Hin]; [cbn in E; congruence | exact Hin].
Qed.
(* ... but only in this order: applied the other way round the inner parameter's argument stays unsubstituted *)
Example order_matters :
  let m := [(1, BOp 0 [BVar 2; BLit 1000]); (2, BLit 3)] in
  bsubst_all m (BVar 1) = BOp 0 [BLit 3; BLit 1000] /\ bsubst_all (rev m) (BVar 1) = BOp 0 [BVar 2; BLit 1000].
Proof. split; reflexivity. Qed.
(* only identifiers are replaced: an index or field expression rooted at a parameter keeps its shape *)
Example subst_keeps_structure :
  bsubst 1 (BVar 9) (BOp 2 [BVar 1; BLit 1]) = BOp 2 [BVar 9; BLit 1].
Proof. reflexivity. Qed.

Example dot_example :
  (* T(const int[0,2000] n) { int[0,n+105] v; clock x; L0 }   Q(k) = T(k + 1000);  P = Q(3) *)
  let p := mkproc 9 7 [(1, TConstRange (BLit 0) (BLit 2000)); (2, TRange (BLit 0) (BOp 0 [BVar 1; BLit 105])); (3, TClock); (4, TLoc)] [(1, BOp 0 [BVar 2; BLit 1000]); (2, BLit 3)] in
  dot p 2 = Some (1, TRange (BLit 0) (BOp 0 [BOp 0 [BLit 3; BLit 1000]; BLit 105])) /\ dot p 4 = Some (3, TBool) /\ dot p 5 = None /\
  triangular (p_map p).
Proof. cbn. repeat split; try reflexivity; try tauto; intros; cbn in *; intuition (try lia; try discriminate). Qed.
