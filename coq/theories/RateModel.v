(* L-RATE: hand model of RateDecomposer::decompose (src/typechecker.cpp), the pass of TypeChecker::visitLocation that
   rebuilds the invariant of a location conjunct by conjunct, takes the cost rate out of it and records whether clocks
   are stopped and whether an upper bound is strict.

   Invariant labels are seen through the node kinds the decomposer distinguishes: conjunctions, disjunctions,
   universal quantifiers, equations between a rate and a value, and leaves (everything else) with the class the type
   checker gave them.  Classes of inner nodes are computed by the clauses of Typing.v (the model of checkExpression);
   a leaf never has the class INVARIANT_WR (the checker gives it to AND, OR, EQ and FORALL nodes only). *)
From Coq Require Import List Bool Arith.
Import ListNotations.
From Utap Require Import Typing.

Inductive lexp :=
  | LLeaf (c : cls) (lt : bool) (id : nat)          (* lt: the node's kind is LT *)
  | LAnd (a b : lexp)
  | LOr (a b : lexp)
  | LForall (b : lexp)
  | LRate (cost : bool) (lft : bool) (id : nat) (rhs : cls).   (* r' == v (left) or v == r' *)

Definition is_wr c := match c with CInvariantWR => true | _ => false end.

Definition obind {A B} (o : option A) (f : A -> option B) : option B := match o with Some a => f a | None => None end.

Fixpoint ltype (e : lexp) : option cls :=
  match e with
  | LLeaf c _ _ => if is_wr c then None else Some c
  | LAnd a b => obind (ltype a) (fun ta => obind (ltype b) (fun tb => bin_type OAnd ta tb))
  | LOr a b => obind (ltype a) (fun ta => obind (ltype b) (fun tb => bin_type OOr ta tb))
  | LForall b => obind (ltype b) forall_type
  | LRate _ lft _ rhs => if lft then bin_type OEq CRate rhs else bin_type OEq rhs CRate
  end.

(* what visitLocation asks before it calls the decomposer *)
Definition accepted (e : lexp) : bool := match ltype e with Some c => isInvariantWR c | None => false end.
Definition plain (e : lexp) : bool := match ltype e with Some c => is_invariant c | None => false end.

Record dstate := { inv : list lexp;            (* conjuncts pushed on `invariant` (which starts as the constant 1), oldest first *)
                   cost : option nat;          (* costRate: the rate of the last cost equation met *)
                   ncost : nat;                (* countCostRates *)
                   clockrates : bool;          (* hasClockRates *)
                   strict : bool }.            (* hasStrictInvariant *)

Definition d0 := {| inv := []; cost := None; ncost := 0; clockrates := false; strict := false |}.

Definition push (keep : bool) (e : lexp) (s : dstate) : dstate :=
  if keep then {| inv := inv s ++ [e]; cost := cost s; ncost := ncost s; clockrates := clockrates s; strict := strict s |} else s.
Definition set_strict (s : dstate) := {| inv := inv s; cost := cost s; ncost := ncost s; clockrates := clockrates s; strict := true |}.
Definition set_clock (s : dstate) := {| inv := inv s; cost := cost s; ncost := ncost s; clockrates := true; strict := strict s |}.
Definition set_cost (id : nat) (s : dstate) := {| inv := inv s; cost := Some id; ncost := S (ncost s); clockrates := clockrates s; strict := strict s |}.

Definition root_lt (e : lexp) := match e with LLeaf _ lt _ => lt | _ => false end.

(* the branches of decompose in the order of its if-chain *)
Fixpoint decompose (e : lexp) (inforall : bool) (s : dstate) : dstate :=
  if plain e then push (negb inforall) e (if root_lt e then set_strict s else s)
  else match e with
       | LAnd a b => decompose b inforall (decompose a inforall s)
       | LRate true _ id _ => set_cost id s
       | LRate false _ _ _ => push (negb inforall) e (set_clock s)
       | LForall b => push (negb inforall) e (decompose b true s)
       | LOr a b => push (negb inforall) e (decompose b true (decompose a true s))
       | LLeaf _ _ _ => s        (* not reached on accepted labels: assert(expr.get_type().is(INVARIANT_WR)) *)
       end.

(* ---- the specification the decomposer is compared with ---- *)

(* top-level conjuncts of a label: conjunctions are split, nothing else is *)
Fixpoint flat (e : lexp) : list lexp := match e with LAnd a b => flat a ++ flat b | _ => [e] end.

Definition is_cost_rate (e : lexp) := match e with LRate true _ _ _ => true | _ => false end.

(* every cost equation of the label, left to right, at any depth *)
Fixpoint cost_rates (e : lexp) : list nat :=
  match e with
  | LLeaf _ _ _ => []
  | LAnd a b | LOr a b => cost_rates a ++ cost_rates b
  | LForall b => cost_rates b
  | LRate true _ id _ => [id]
  | LRate false _ _ _ => []
  end.
Fixpoint has_clock_rate (e : lexp) : bool :=
  match e with
  | LLeaf _ _ _ => false
  | LAnd a b | LOr a b => has_clock_rate a || has_clock_rate b
  | LForall b => has_clock_rate b
  | LRate c _ _ _ => negb c
  end.

Definition last_opt (l : list nat) (d : option nat) : option nat := match rev l with x :: _ => Some x | [] => d end.

(* the maximal rate-free subtrees reached by the decomposer are tested for the kind LT at their root only *)
Fixpoint strict_roots (e : lexp) : bool :=
  if plain e then root_lt e
  else match e with
       | LAnd a b | LOr a b => strict_roots a || strict_roots b
       | LForall b => strict_roots b
       | _ => false
       end.
