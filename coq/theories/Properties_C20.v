(* C20 — the XML writer's template graph mirrors the document it was given.
   Only statements, each closed by a lemma of WriterProofs.v, with the axioms it rests on printed below it. *)
From Coq Require Import List String Arith Bool.
From Utap Require Import WriterModel WriterProofs.
Import ListNotations.
Local Open Scope string_scope.

(* For every template of any size whose numbering is dense and whose end points and initial location lie inside it
   (what C08 states of every built document), an independent reader of the written element tree finds: one location per
   location with pairwise distinct ids, its name, invariant and rate; the init reference; one transition per edge in
   order with the right end points (locations or branchpoints), the controllable flag, and the select / guard /
   synchronisation / assignment / probability texts — and nothing else (no second label of a kind, no second init). *)
Theorem C20_writer_graph : forall t : wtempl, wf_templ t = true -> read_templ (write_templ t) = Some (graph_of t).
Proof. exact read_write_templ. Qed.
Print Assumptions C20_writer_graph.

(* a label whose text is neither the literal 1 nor starts with "1 && " is carried verbatim *)
Theorem C20_label_verbatim : forall k s : string, (s =? "1") = false -> prefix "1 && " s = false -> norm k (Some s) = Some s.
Proof. exact norm_plain. Qed.
Print Assumptions C20_label_verbatim.

Theorem C20_rate_one_kept : norm "exponentialrate" (Some "1") = Some "1".
Proof. exact norm_rate_one. Qed.
Print Assumptions C20_rate_one_kept.

(* identifiers: distinct numbers give distinct id strings (so location and branchpoint references cannot collide) *)
Theorem C20_ids_injective : forall a b : nat, id_str a = id_str b -> a = b.
Proof. exact id_str_inj. Qed.
Print Assumptions C20_ids_injective.

(* one location at a time, one edge at a time (used by the template theorem; stated for any end-point bounds) *)
Theorem C20_location : forall l : wloc, read_loc (write_loc l) = Some (graph_loc l).
Proof. exact read_write_loc. Qed.
Print Assumptions C20_location.
Theorem C20_edge : forall (nl nb : nat) (e : wedge), ep_ok nl nb (we_src e) = true -> ep_ok nl nb (we_dst e) = true ->
  read_edge (map id_str (seq 0 nl)) (map id_str (map (Nat.add nl) (seq 0 nb))) (write_edge nl e) = Some (graph_edge e).
Proof. exact read_write_edge. Qed.
Print Assumptions C20_edge.

(* the hypotheses are satisfiable by a non-trivial template: two locations, a branchpoint, a self loop, an edge through
   the branchpoint, two selects, a trivial and a non-trivial guard, an uncontrollable edge *)
Definition ex_templ : wtempl :=
  mkwtempl "P" "" "" [mkwloc 0 "A" (Some "x <= 3") None false false; mkwloc 1 "_id1" None (Some "2") false true] [0] (Some 0)
           [mkwedge (ELoc 0) (ELoc 1) false [("j", "int[0,2]"); ("m", "int[1,3]")] (Some "x >= 1 && j < 2") (Some "c!") (Some "i = j") None;
            mkwedge (ELoc 1) (EBp 0) true [] (Some "1") None None None;
            mkwedge (EBp 0) (ELoc 1) true [] None None None (Some "3");
            mkwedge (ELoc 1) (ELoc 1) true [] (Some "1 && i < 2") None None None].
Example C20_example : wf_templ ex_templ = true /\ read_templ (write_templ ex_templ) = Some (graph_of ex_templ)
                      /\ List.length (g_edges (graph_of ex_templ)) = 4.
Proof. vm_compute. repeat split. Qed.
