(* L-DOC: hand model of the template part of the XML reader (src/xmlreader.cpp: templ / location / branchpoint /
   init / transition / label) as a function from the parsed element structure to builder callbacks, and of
   DocumentBuilder's proc_* callbacks (src/DocumentBuilder.cpp) including the never-cleared `currentEdge` pointer. *)
From Coq Require Import List Bool Arith Lia.
Import ListNotations.

Definition id := nat.
Inductive nm := Named (n : nat) | Anon (i : id).            (* a spelled name, or the "_<id>" name of an anonymous element *)
Definition nm_eqb (a b : nm) : bool := match a, b with Named x, Named y | Anon x, Anon y => Nat.eqb x y | _, _ => false end.
Lemma nm_eqb_eq a b : nm_eqb a b = true <-> a = b.
Proof. destruct a, b; cbn; split; intros H; try discriminate; try (apply Nat.eqb_eq in H; congruence); inversion H; apply Nat.eqb_refl. Qed.
Definition lab := nat.                                        (* the text of a label, by identity *)

(* ---- the element structure of a <template> ----------------------------------------------------------------------- *)
Record xloc := mkxloc { xl_id : id; xl_name : option nat; xl_inv : option lab; xl_rate : option lab; xl_urgent : bool; xl_committed : bool }.
Inductive lkind := KSelect | KGuard | KSync | KUpdate | KProb | KOther.      (* the kind attribute; KOther: comments, unknown kinds *)
Record xedge := mkxedge { xe_src : id; xe_dst : id; xe_control : bool; xe_labels : list (lkind * lab) }.
Record xtempl := mkxtempl { xt_name : nat; xt_locs : list xloc; xt_bps : list id; xt_init : option id; xt_edges : list xedge }.

(* ---- builder callbacks ------------------------------------------------------------------------------------------------- *)
Inductive cb :=
  | ProcBegin (name : nat) | ProcEnd
  | ProcLocation (n : nm) (inv rate : option lab) | ProcLocCommit (n : nm) | ProcLocUrgent (n : nm)
  | ProcBranchpoint (n : nm) | ProcInit (n : nm)
  | EdgeBegin (src dst : nm) (control : bool) | EdgeEnd
  | Select (l : lab) | Guard (l : lab) | Sync (l : lab) | Update (l : lab) | Prob (l : lab).

(* ---- the reader: names map (id -> name), then the callbacks in document order ------------------------------------------ *)
Definition names := list (id * nm).
Fixpoint lookup (m : names) (i : id) : option nm := match m with [] => None | (j, n) :: r => if Nat.eqb i j then Some n else lookup r i end.
Definition loc_name (l : xloc) : nm := match xl_name l with Some n => Named n | None => Anon (xl_id l) end.
Definition read_loc (l : xloc) : list cb :=
  ProcLocation (loc_name l) (xl_inv l) (xl_rate l) :: (if xl_committed l then [ProcLocCommit (loc_name l)] else []) ++ (if xl_urgent l then [ProcLocUrgent (loc_name l)] else []).
Definition read_label (kl : lkind * lab) : list cb :=
  match fst kl with KSelect => [Select (snd kl)] | KGuard => [Guard (snd kl)] | KSync => [Sync (snd kl)] | KUpdate => [Update (snd kl)] | KProb => [Prob (snd kl)] | KOther => [] end.
(* get_name(ref) throws XMLDocError("Missing reference") when the id is unknown: the whole parse ends *)
Definition read_edge (m : names) (e : xedge) : option (list cb) :=
  match lookup m (xe_src e), lookup m (xe_dst e) with
  | Some s, Some d => Some (EdgeBegin s d (xe_control e) :: flat_map read_label (xe_labels e) ++ [EdgeEnd])
  | _, _ => None
  end.
Fixpoint read_edges (m : names) (es : list xedge) : option (list cb) :=
  match es with
  | [] => Some []
  | e :: r => match read_edge m e, read_edges m r with Some a, Some b => Some (a ++ b) | _, _ => None end
  end.
(* insert_or_assign: a later element with the same id replaces the earlier one *)
Definition reg (m : names) (i : id) (n : nm) : names := (i, n) :: m.
Definition read_templ (m0 : names) (t : xtempl) : option (list cb) * names :=
  let m1 := fold_left (fun m l => reg m (xl_id l) (loc_name l)) (xt_locs t) m0 in
  let m2 := fold_left (fun m b => reg m b (Anon b)) (xt_bps t) m1 in
  let init_cbs := match xt_init t with
                  | Some i => match lookup m2 i with Some n => Some [ProcInit n] | None => None end
                  | None => Some []           (* "$Missing_initial_location" is reported, no callback *)
                  end in
  (match init_cbs, read_edges m2 (xt_edges t) with
   | Some ic, Some ec => Some (ProcBegin (xt_name t) :: flat_map read_loc (xt_locs t) ++ map (fun b => ProcBranchpoint (Anon b)) (xt_bps t) ++ ic ++ ec ++ [ProcEnd])
   | _, _ => None
   end, m2).

(* ---- the document and the builder ------------------------------------------------------------------------------------------ *)
Record dloc := mkdloc { dl_name : nm; dl_inv : option lab; dl_rate : option lab; dl_urgent : bool; dl_committed : bool }.
Record dedge := mkdedge { de_src : nm; de_dst : nm; de_control : bool; de_selects : list lab; de_guard : option lab; de_sync : option lab; de_update : option lab; de_prob : option lab }.
Record dtempl := mkdtempl { dt_name : nat; dt_locs : list dloc; dt_bps : list nm; dt_init : option nm; dt_edges : list dedge }.
(* builder state: finished templates, the open template (currentTemplate), and currentEdge, which the code never
   resets: it may point into the open template, or - stale - into a finished one *)
Inductive eptr := PNone | PCur (ei : nat) | PDone (ti ei : nat).
Record bstate := mkb { b_done : list dtempl; b_cur : option dtempl; b_edge : eptr }.
Definition b0 := mkb [] None PNone.

Fixpoint upd_nth {A} (n : nat) (f : A -> A) (l : list A) : list A :=
  match l with [] => [] | x :: r => match n with O => f x :: r | S m => x :: upd_nth m f r end end.
Definition is_loc (t : dtempl) (n : nm) : bool := existsb (fun l => nm_eqb (dl_name l) n) (dt_locs t).
Definition is_bp (t : dtempl) (n : nm) : bool := existsb (nm_eqb n) (dt_bps t).
Definition set_flag (n : nm) (f : dloc -> dloc) (t : dtempl) : dtempl :=
  mkdtempl (dt_name t) (map (fun l => if nm_eqb (dl_name l) n then f l else l) (dt_locs t)) (dt_bps t) (dt_init t) (dt_edges t).
Definition with_edges (t : dtempl) (es : list dedge) : dtempl := mkdtempl (dt_name t) (dt_locs t) (dt_bps t) (dt_init t) es.
Definition on_cur_edge (b : bstate) (f : dedge -> dedge) : bstate :=
  match b_edge b with
  | PNone => b                                                      (* "Must be declared inside of an edge" *)
  | PCur ei => match b_cur b with
               | Some t => mkb (b_done b) (Some (with_edges t (upd_nth ei f (dt_edges t)))) (b_edge b)
               | None => b end
  | PDone ti ei => mkb (upd_nth ti (fun t => with_edges t (upd_nth ei f (dt_edges t))) (b_done b)) (b_cur b) (b_edge b)
  end.
Definition on_cur (b : bstate) (f : dtempl -> dtempl) : bstate :=
  match b_cur b with Some t => mkb (b_done b) (Some (f t)) (b_edge b) | None => b end.

Definition step (b : bstate) (c : cb) : bstate :=
  match c with
  | ProcBegin n =>
      (* a template that was never closed is kept as it is *)
      let done := match b_cur b with Some t => b_done b ++ [t] | None => b_done b end in
      let ptr := match b_edge b, b_cur b with PCur ei, Some _ => PDone (length (b_done b)) ei | p, _ => p end in
      mkb done (Some (mkdtempl n [] [] None [])) ptr
  | ProcEnd =>
      match b_cur b with
      | Some t => mkb (b_done b ++ [t]) None (match b_edge b with PCur ei => PDone (length (b_done b)) ei | p => p end)
      | None => b
      end
  | ProcLocation n inv rate => on_cur b (fun t => mkdtempl (dt_name t) (dt_locs t ++ [mkdloc n inv rate false false]) (dt_bps t) (dt_init t) (dt_edges t))
  | ProcLocCommit n => on_cur b (fun t => if is_loc t n && negb (existsb (fun l => nm_eqb (dl_name l) n && dl_urgent l) (dt_locs t))
                                          then set_flag n (fun l => mkdloc (dl_name l) (dl_inv l) (dl_rate l) (dl_urgent l) true) t else t)
  | ProcLocUrgent n => on_cur b (fun t => if is_loc t n && negb (existsb (fun l => nm_eqb (dl_name l) n && dl_committed l) (dt_locs t))
                                          then set_flag n (fun l => mkdloc (dl_name l) (dl_inv l) (dl_rate l) true (dl_committed l)) t else t)
  | ProcBranchpoint n => on_cur b (fun t => mkdtempl (dt_name t) (dt_locs t) (dt_bps t ++ [n]) (dt_init t) (dt_edges t))
  | ProcInit n => on_cur b (fun t => if is_loc t n then mkdtempl (dt_name t) (dt_locs t) (dt_bps t) (Some n) (dt_edges t) else t)
  | EdgeBegin s d ctl =>
      match b_cur b with
      | Some t => if (is_loc t s || is_bp t s) && (is_loc t d || is_bp t d)
                  then mkb (b_done b) (Some (with_edges t (dt_edges t ++ [mkdedge s d ctl [] None None None None]))) (PCur (length (dt_edges t)))
                  else b                                           (* error reported; currentEdge stays null (reset by the previous proc_edge_end) *)
      | None => b
      end
  | EdgeEnd => mkb (b_done b) (b_cur b) PNone                 (* proc_edge_end resets currentEdge *)
  | Select l => on_cur_edge b (fun e => mkdedge (de_src e) (de_dst e) (de_control e) (de_selects e ++ [l]) (de_guard e) (de_sync e) (de_update e) (de_prob e))
  | Guard l => on_cur_edge b (fun e => mkdedge (de_src e) (de_dst e) (de_control e) (de_selects e) (Some l) (de_sync e) (de_update e) (de_prob e))
  | Sync l => on_cur_edge b (fun e => mkdedge (de_src e) (de_dst e) (de_control e) (de_selects e) (de_guard e) (Some l) (de_update e) (de_prob e))
  | Update l => on_cur_edge b (fun e => mkdedge (de_src e) (de_dst e) (de_control e) (de_selects e) (de_guard e) (de_sync e) (Some l) (de_prob e))
  | Prob l => on_cur_edge b (fun e => mkdedge (de_src e) (de_dst e) (de_control e) (de_selects e) (de_guard e) (de_sync e) (de_update e) (Some l))
  end.
Definition build (cs : list cb) (b : bstate) : bstate := fold_left step cs b.
Definition templates (b : bstate) : list dtempl := b_done b ++ match b_cur b with Some t => [t] | None => [] end.

(* ---- what the document of a template should be --------------------------------------------------------------------------------- *)
Definition kind_eqb (a b : lkind) : bool :=
  match a, b with KSelect, KSelect | KGuard, KGuard | KSync, KSync | KUpdate, KUpdate | KProb, KProb | KOther, KOther => true | _, _ => false end.
(* the last label of a kind wins *)
Fixpoint last_of (k : lkind) (ls : list (lkind * lab)) : option lab :=
  match ls with
  | [] => None
  | kl :: r => match last_of k r with Some x => Some x | None => if kind_eqb (fst kl) k then Some (snd kl) else None end
  end.
Definition selects_of (ls : list (lkind * lab)) : list lab := flat_map (fun kl => match fst kl with KSelect => [snd kl] | _ => [] end) ls.
Definition doc_loc (l : xloc) : dloc := mkdloc (loc_name l) (xl_inv l) (xl_rate l) (xl_urgent l) (xl_committed l).
Definition doc_edge (m : names) (e : xedge) : option dedge :=
  match lookup m (xe_src e), lookup m (xe_dst e) with
  | Some s, Some d => Some (mkdedge s d (xe_control e) (selects_of (xe_labels e)) (last_of KGuard (xe_labels e)) (last_of KSync (xe_labels e)) (last_of KUpdate (xe_labels e)) (last_of KProb (xe_labels e)))
  | _, _ => None
  end.
