(* C02 — parsed expression trees follow the language's precedence and associativity.
   Statements only; proofs are `exact`/`apply` of lemmas in SR.v, ExprSyntax.v, LexNum.v, or
   vm_compute certificates over the table regenerated from parser.y (gen/Gen_OpTable.v). *)
From Coq Require Import List String Bool Arith ZArith Decimal.
From Utap Require Import SR OpTableRef ExprSyntax LexNum CommentLex LexModel LexProofs.
From Utap.gen Require Import Gen_OpTable Gen_LexRules.
Import ListNotations.

(* 1. Rendering any tree with only the parentheses the (regenerated) table requires and parsing the
      tokens yields that tree again; same for the fully parenthesised rendering; the parse is unique. *)
Theorem C02_roundtrip_min (t : exprG) : parses_toG (flatG false t) t.
Proof. exact (roundtrip _ _ _ _ _ _ _ _ _ _ _ _ _ _ _ _ _ (fun _ _ => false) (fun _ _ => false) (fun _ => false) t). Qed.
Theorem C02_roundtrip_full (t : exprG) : parses_toG (flatG true t) t.
Proof. exact (roundtrip _ _ _ _ _ _ _ _ _ _ _ _ _ _ _ _ _ (fun _ _ => true) (fun _ _ => true) (fun _ => false) t). Qed.
Theorem C02_parse_unique (ts : list tokG) (t1 t2 : exprG) : parses_toG ts t1 -> parses_toG ts t2 -> t1 = t2.
Proof. exact (parses_to_unique _ _ _ _ _ _ _ _ _ _ _ _ _ _ _ _ _ ts t1 t2). Qed.

(* 2. The table regenerated from parser.y takes, for every pending operator rule and every
      continuing token, the shift/reduce decision prescribed by the reference UPPAAL table, with the
      precedence symbols and node kinds the language prescribes. *)
Theorem C02_table_is_reference (p : pending) (c : cont) :
  ref_shifts p c = Some (gen_shifts p c) /\ pending_gen_sym p = pending_ref_sym p.
Proof.
  destruct p as [o|u|]; destruct c as [o'|p'| | |];
  try destruct o; try destruct u; try destruct o'; try destruct p'; split; vm_compute; reflexivity.
Qed.
Theorem C02_kinds_are_reference : kinds_ok = true.
Proof. vm_compute. reflexivity. Qed.

(* 3. Keyword aliases, imply, unary plus. *)
Theorem C02_alias_and l r : norm (Bin _ _ _ _ B_T_KW_AND l r) = norm (Bin _ _ _ _ B_T_BOOL_AND l r)
  /\ bin_rule B_T_KW_AND = bin_rule B_T_BOOL_AND /\ bin_tok B_T_KW_AND = bin_tok B_T_BOOL_AND
  /\ bin_rassoc B_T_KW_AND = bin_rassoc B_T_BOOL_AND.
Proof. repeat split; reflexivity. Qed.
Theorem C02_alias_or l r : norm (Bin _ _ _ _ B_T_KW_OR l r) = norm (Bin _ _ _ _ B_T_BOOL_OR l r)
  /\ bin_rule B_T_KW_OR = bin_rule B_T_BOOL_OR /\ bin_tok B_T_KW_OR = bin_tok B_T_BOOL_OR
  /\ bin_rassoc B_T_KW_OR = bin_rassoc B_T_BOOL_OR.
Proof. repeat split; reflexivity. Qed.
Theorem C02_alias_not x : norm (Un _ _ _ _ U_T_KW_NOT x) = norm (Un _ _ _ _ U_T_EXCLAM x)
  /\ pre_rule U_T_KW_NOT = pre_rule U_T_EXCLAM.
Proof. split; reflexivity. Qed.
Theorem C02_imply l r : norm (Bin _ _ _ _ B_T_KW_IMPLY l r) = K "OR" None [K "NOT" None [norm l]; norm r]
  /\ bin_rule B_T_KW_IMPLY = bin_rule B_T_BOOL_OR /\ bin_tok B_T_KW_IMPLY = bin_tok B_T_BOOL_OR.
Proof. repeat split; reflexivity. Qed.
Theorem C02_unary_plus x : norm (Un _ _ _ _ U_T_PLUS x) = norm x.
Proof. reflexivity. Qed.

(* 4. Integer literals are represented exactly or rejected, whatever libc's atoi does. *)
Theorem C02_nat_exact (atoi : uint -> Z) ds n : lex_num atoi ds = TNat n -> value ds = n /\ (0 <= n <= 2^31 - 1)%Z.
Proof. exact (lex_num_exact atoi ds n). Qed.
Theorem C02_int_min_token (atoi : uint -> Z) ds : lex_num atoi ds = TPosNegMax -> value ds = (2^31)%Z.
Proof. exact (lex_num_posnegmax atoi ds). Qed.
Theorem C02_nat_complete (atoi : uint -> Z) ds : (forall s, (value s <= 2^31 - 1)%Z -> atoi s = value s) ->
  (value ds <= 2^31 - 1)%Z -> lex_num atoi ds = TNat (value ds).
Proof. exact (lex_num_complete atoi ds). Qed.

(* non-vacuity: a concrete tree whose minimal rendering needs and omits parentheses *)
Example C02_example :
  let a := Atom bop uop pop fnid 0 in let b := Atom bop uop pop fnid 1 in let c := Atom bop uop pop fnid 2 in
  flatG false (Bin _ _ _ _ B_T_MULT (Bin _ _ _ _ B_T_PLUS a b) c)
    = [LP _ _ _ _; TAtom _ _ _ _ 0; TOp _ _ _ _ B_T_PLUS; TAtom _ _ _ _ 1; RP _ _ _ _; TOp _ _ _ _ B_T_MULT; TAtom _ _ _ _ 2]
  /\ flatG false (Bin _ _ _ _ B_T_PLUS a (Bin _ _ _ _ B_T_MULT b c))
    = [TAtom _ _ _ _ 0; TOp _ _ _ _ B_T_PLUS; TAtom _ _ _ _ 1; TOp _ _ _ _ B_T_MULT; TAtom _ _ _ _ 2]
  /\ parseG (flatG false (Bin _ _ _ _ B_T_MULT (Bin _ _ _ _ B_T_PLUS a b) c)) = Some (Bin _ _ _ _ B_T_MULT (Bin _ _ _ _ B_T_PLUS a b) c).
Proof. vm_compute. repeat split; reflexivity. Qed.

(* ---- the scanner: which characters make which token (LexModel.v over the rules regenerated from lexer.l) ---- *)
(* the rules of lexer.l that are not literals are the ones the model implements, the character classes are the modelled ones, and the
   three ties between rules that can match the same text are decided as in the model: every literal rule stands before the
   identifier rule (A, U, location ... are tokens, not identifiers) and before the catch-all dot, and the rule for naturals before the
   rule for floating-point numbers *)
Theorem C02_scanner_rules_are_the_modelled_ones :
  gen_other_rules = reference_other_rules /\ gen_defs = reference_defs /\
  gen_literals_before_identifier = true /\ gen_literals_before_dot = true /\ gen_num_before_float = true.
Proof. repeat split; reflexivity. Qed.
Print Assumptions C02_scanner_rules_are_the_modelled_ones.
(* no literal contains a separator or is empty, and every literal rule is reachable: followed by a blank its text gives its own
   token (no other rule shadows it) *)
Theorem C02_every_literal_gives_its_token : table_ok gen_literals = true.
Proof. vm_compute. reflexivity. Qed.
Print Assumptions C02_every_literal_gives_its_token.
(* maximal munch: whatever the table, the lexeme at the head of a text is at least as long as every literal that starts the text
   (x<=y is never read as x < = y), and a nonempty text always gives a nonempty lexeme *)
Theorem C02_scanner_maximal_munch : forall literals s t tok,
  In (t, tok) literals -> starts (list_ascii_of_string t) s = true -> List.length (list_ascii_of_string t) <= lexeme_len (lex1 literals s).
Proof. exact lex1_maximal_munch. Qed.
Print Assumptions C02_scanner_maximal_munch.
Theorem C02_scanner_progress : forall literals c r, 0 < lexeme_len (lex1 literals (c :: r)).
Proof. exact lex1_progress. Qed.
Print Assumptions C02_scanner_progress.
Example C02_scanner_example :
  lex gen_literals 40 (list_ascii_of_string "a<=b--c /* x */ A[] 1.5e3") =
  Some [(KIdent, list_ascii_of_string "a"); (KLit "T_LEQ", list_ascii_of_string "<="); (KIdent, list_ascii_of_string "b"); (KLit "T_DECREMENT", list_ascii_of_string "--");
        (KIdent, list_ascii_of_string "c"); (KLit "T_AG", list_ascii_of_string "A[]"); (KFloat, list_ascii_of_string "1.5e3")].
Proof. vm_compute. reflexivity. Qed.
