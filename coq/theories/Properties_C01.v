(* C01 — no input crashes, corrupts memory or hangs any parsing entry point: the stack-discipline part.
   Only statements, each closed by a lemma of LRStack.v applied to the certificates of LRCert.v (which check_all verifies by
   computation on the automaton regenerated from parser.y), with the axioms each rests on. *)
From Coq Require Import List ZArith.
From Utap Require Import LRStack LRCert.
From Utap.gen Require Import Gen_LR.

(* For every token stream and every error recovery — every run of the LR machine of the regenerated automaton, which may shift
   any terminal the state allows, reduce by any rule the state lists whatever the lookahead, and recover from any state
   without default reduction by discarding entries down to the first state that shifts `error` — no grammar action ever
   reads more entries of the expression stack than the parse itself has pushed (fragments[i] / pop(n) never reach below). *)
Theorem C01_fragments_never_underflow : forall c, reach G_frag c -> ~ underflow G_frag c.
Proof. exact (no_underflow G_frag C_frag cert_frag). Qed.
Print Assumptions C01_fragments_never_underflow.

(* the same for the type stack (typeFragments[0], pop, duplicate) *)
Theorem C01_type_fragments_never_underflow : forall c, reach G_type c -> ~ underflow G_type c.
Proof. exact (no_underflow G_type C_type cert_type). Qed.
Print Assumptions C01_type_fragments_never_underflow.

(* and for the frame stack (popFrame, frames.top()) *)
Theorem C01_frames_never_underflow : forall c, reach G_frame c -> ~ underflow G_frame c.
Proof. exact (no_underflow G_frame C_frame cert_frame). Qed.
Print Assumptions C01_frames_never_underflow.

(* current-object discipline, with the same machine: seen as stacks of height 0 / 1, the pointers currentFun and currentTemplate
   are never dereferenced by a grammar action while null — statements only reach get_block() inside a function whose
   decl_func_begin has run, locations / branchpoints / edges / init only inside a process whose proc_begin has run —
   whatever the tokens and however the parser recovers *)
Theorem C01_current_function_never_null_when_used : forall c, reach G_fun c -> ~ underflow G_fun c.
Proof. exact (no_underflow G_fun C_fun cert_fun). Qed.
Print Assumptions C01_current_function_never_null_when_used.
Theorem C01_current_template_never_null_when_used : forall c, reach G_templ c -> ~ underflow G_templ c.
Proof. exact (no_underflow G_templ C_templ cert_templ). Qed.
Print Assumptions C01_current_template_never_null_when_used.

(* the stack height never drops below the contribution of what is on the parser stack: in particular a complete parse of a
   block (the stack holds the start symbol again) leaves at least what it found *)
Theorem C01_height_invariant : forall c, reach G_frag c -> (pot C_frag (fst c) <= snd c)%Z.
Proof. intros c R. exact (proj2 (reach_inv G_frag C_frag cert_frag c R)). Qed.
Print Assumptions C01_height_invariant.

(* non-vacuity: the machine can run — shifting a first token is a step from the initial configuration of the real automaton *)
Example C01_example : exists c, reach G_frag c /\ fst c <> nil.
Proof.
  destruct (s_trans (info G_frag (g_init G_frag))) as [|[x q] r] eqn:E; [vm_compute in E; discriminate|].
  assert (T : has_trans G_frag (top G_frag nil) x q) by (unfold has_trans; cbn [top]; rewrite E; now left).
  destruct (g_term G_frag x) eqn:Tm.
  - exists ((q, x, 0%nat) :: nil, 0%Z). split; [|discriminate]. eapply reachS; [apply reach0 | now apply Shift].
  - vm_compute in E. injection E as <- _ _. vm_compute in Tm. discriminate.
Qed.
