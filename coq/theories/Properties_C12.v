(* C12 — no accepted model writes to a constant. *)
From Coq Require Import List Bool Arith.
From Utap Require Import Constness.
Import ListNotations.

(* an assignment / increment the checker accepts (isModifiableLValue on the target, sub-expressions checked first)
   can only reach variables whose declared type is mutable, through . [] ?: , and nested writes *)
Theorem C12_write_needs_mutable target : writes_checked (LWrite target) = true -> forall t, In t (roots target) -> is_mutable t = true.
Proof. exact (accepted_write_targets_mutable target). Qed.
(* the same predicate guards arguments of non-const reference parameters of functions and templates *)
Theorem C12_ref_argument_needs_mutable arg : writes_checked arg = true -> modifiable arg = true -> forall t, In t (roots arg) -> is_mutable t = true.
Proof. exact (modifiable_roots_mutable arg). Qed.
(* a type is mutable exactly when no CONSTANT occurs on its spine, under prefixes, ranges, labels, references, arrays and in any field *)
Theorem C12_mutable_iff_const_free t : is_mutable t = const_free t.
Proof. exact (mutable_iff_const_free t). Qed.
Theorem C12_array_element t : is_array t = true -> is_mutable (get_sub t) = is_mutable t.
Proof. exact (array_element_mutability t). Qed.
Theorem C12_const_array_element t : const_prefixed t = true -> is_mutable (get_sub t) = false.
Proof. exact (const_array_element t). Qed.
Theorem C12_const_record_field t i : const_prefixed t = true -> is_mutable (get_field t i) = false.
Proof. exact (const_record_field t i). Qed.
Theorem C12_mutable_record_fields fs i : is_mutable (TRecord fs) = true -> i < List.length fs -> is_mutable (nth i fs TBase) = true.
Proof. exact (mutable_record_fields fs i). Qed.

Example C12_example :
  let cs := LId (TConst (TLabel (TRecord [TBase; TBase]))) in            (* const S cs; *)
  let m := LId (TRange TBase) in                                          (* int[0,5] m; *)
  modifiable (LDot false cs) = false /\ modifiable (LIte cs m true) = false /\ modifiable (LIdx m) = true
  /\ writes_checked (LWrite (LWrite cs)) = false /\ writes_checked (LWrite (LIte m m true)) = true.
Proof. vm_compute. repeat split; reflexivity. Qed.
