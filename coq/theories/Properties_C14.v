(* C14 — typing of commutative operators and inline-if is symmetric in its operands. *)
From Coq Require Import List Bool Arith ZArith.
From Utap Require Import Typing TypeSym.

(* swapping the operands of + * == != && || & | ^ <? >? (and xor) changes neither acceptance nor the resulting class *)
Theorem C14_commutative_operators o a b : commutative o = true -> bin_type o a b = bin_type o b a.
Proof. exact (comm_sym o a b). Qed.
(* swapping the branches of an inline-if never changes acceptance ... *)
Theorem C14_inline_if_acceptance c a b : accepted_opt (iif_type c a b) = accepted_opt (iif_type c b a).
Proof. exact (iif_sym_accept c a b). Qed.
(* ... and changes the resulting class only between int and bool (recorded as a known finding) *)
Theorem C14_inline_if_kind c a b : iif_type c a b = iif_type c b a \/ (is_integral a && is_integral b && negb (cls_eqb a b) = true).
Proof. exact (iif_sym_kind c a b). Qed.
Theorem C14_inline_if_kind_refuted : exists c a b, iif_type c a b <> iif_type c b a.
Proof. exists CBool, CInt, CBool. vm_compute. discriminate. Qed.
(* type equivalence, on which reference-parameter compatibility rests, is symmetric for all structural types,
   and a reference / const wrapper on either scalar type is ignored *)
Theorem C14_equivalence_symmetric a b : equiv a b = equiv b a.
Proof. exact (equiv_sym a b). Qed.
Theorem C14_scalar_symmetric a b : same_scalar a b = same_scalar b a.
Proof. exact (same_scalar_sym a b). Qed.
Theorem C14_scalar_wrapper_left a b : same_scalar (ScPrefix a) b = same_scalar a b.
Proof. exact (same_scalar_prefix_l a b). Qed.
Theorem C14_scalar_wrapper_right a b : same_scalar a (ScPrefix b) = same_scalar a b.
Proof. exact (same_scalar_prefix_r a b). Qed.
