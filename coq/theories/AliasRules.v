(* C09: the keyword aliases of the boolean operators (and / or / not for && / || / !) are interchangeable wherever the grammar allows one of
   them: a decidable check over the table of productions, evaluated on the table regenerated from parser.y (gen/Gen_Rules.v). *)
From Coq Require Import List String Bool.
Import ListNotations.
Local Open Scope string_scope.

Definition rule := (string * list string)%type.
Definition rule_eqb (a b : rule) : bool :=
  String.eqb (fst a) (fst b) && (fix eqs (x y : list string) := match x, y with [], [] => true | p :: x', q :: y' => String.eqb p q && eqs x' y' | _, _ => false end) (snd a) (snd b).
Definition has (rules : list rule) (r : rule) : bool := existsb (rule_eqb r) rules.
Definition respell (x y : string) (rhs : list string) : list string := map (fun t => if String.eqb t x then y else t) rhs.
Definition mentions (x : string) (rhs : list string) : bool := existsb (String.eqb x) rhs.

(* the pairs, and the one production in which the exclamation mark is not a negation: the send marker of a synchronisation *)
Definition alias_pairs : list (string * string) := [("T_BOOL_AND", "T_KW_AND"); ("T_BOOL_OR", "T_KW_OR"); ("T_EXCLAM", "T_KW_NOT")].
Definition excepted (r : rule) (x : string) : bool := String.eqb (fst r) "SyncExpr" && String.eqb x "T_EXCLAM".

Definition twin_ok (rules : list rule) (r : rule) : bool :=
  forallb (fun p => let '(a, b) := p in
     (negb (mentions a (snd r)) || excepted r a || has rules (fst r, respell a b (snd r))) &&
     (negb (mentions b (snd r)) || excepted r b || has rules (fst r, respell b a (snd r)))) alias_pairs.
Definition twinned (rules : list rule) : bool := forallb (twin_ok rules) rules.

Lemma rule_eqb_eq a b : rule_eqb a b = true -> a = b.
Proof.
  destruct a as [la ra], b as [lb rb]. unfold rule_eqb. cbn [fst snd]. intro H. apply andb_prop in H as [H1 H2]. apply String.eqb_eq in H1. subst lb. f_equal.
  revert rb H2. induction ra as [|p ra IH]; intros [|q rb] H; try discriminate; [reflexivity|].
  apply andb_prop in H as [Hp Hr]. apply String.eqb_eq in Hp. subst q. f_equal. apply IH. exact Hr.
Qed.
Lemma has_in rules r : has rules r = true -> In r rules.
Proof. unfold has. rewrite existsb_exists. intros (x & Hin & He). apply rule_eqb_eq in He. now subst. Qed.

(* what the check says: a production that mentions one spelling has its twin with the other spelling among the productions *)
Theorem twinned_spec rules : twinned rules = true ->
  forall lhs rhs a b, In (lhs, rhs) rules -> In (a, b) alias_pairs \/ In (b, a) alias_pairs -> mentions a rhs = true -> excepted (lhs, rhs) a = false ->
  In (lhs, respell a b rhs) rules.
Proof.
  unfold twinned. rewrite forallb_forall. intros H lhs rhs a b Hin Hp Hm He. specialize (H _ Hin). unfold twin_ok in H. rewrite forallb_forall in H.
  destruct Hp as [Hp|Hp]; specialize (H _ Hp); cbn [fst snd] in H; apply andb_prop in H as [H1 H2].
  - rewrite Hm, He in H1. cbn in H1. apply has_in, H1.
  - rewrite Hm, He in H2. cbn in H2. apply has_in, H2.
Qed.
