(* Instantiation of the generic SR machine with the operator table regenerated from parser.y,
   the normalisation of machine trees to the node kinds the builder produces (keyword aliases,
   `imply` desugaring, unary plus as identity), and the comparison with the reference table. *)
From Coq Require Import List String Bool Arith.
From Utap Require Import SR OpTableRef.
From Utap.gen Require Import Gen_OpTable.
Import ListNotations.
Local Open Scope string_scope.

Definition fnid := string.     (* a builtin function is identified by its node kind *)
Notation tokG := (tok bop uop pop fnid).
Notation exprG := (expr bop uop pop fnid).
Definition stepG := step bop uop pop fnid bin_rule bin_tok bin_rassoc pre_rule post_tok post_rassoc ite_rule q_tok q_rassoc
                         idx_tok call_tok idx_rassoc call_rassoc.
Definition parseG := parse bop uop pop fnid bin_rule bin_tok bin_rassoc pre_rule post_tok post_rassoc ite_rule q_tok q_rassoc
                         idx_tok call_tok idx_rassoc call_rassoc.
Definition parses_toG := parses_to bop uop pop fnid bin_rule bin_tok bin_rassoc pre_rule post_tok post_rassoc ite_rule q_tok q_rassoc
                         idx_tok call_tok idx_rassoc call_rassoc.
Definition flatG (full : bool) := flat bop uop pop fnid bin_rule bin_tok bin_rassoc pre_rule post_tok post_rassoc ite_rule q_tok q_rassoc
                         idx_tok call_tok idx_rassoc call_rassoc (fun _ _ => full) (fun _ _ => full) (fun _ => false).
Definition flatX := flat bop uop pop fnid bin_rule bin_tok bin_rassoc pre_rule post_tok post_rassoc ite_rule q_tok q_rassoc
                         idx_tok call_tok idx_rassoc call_rassoc.
Definition rule_shiftsG := rule_shifts bop uop pop fnid bin_tok bin_rassoc post_tok post_rassoc q_tok q_rassoc
                         idx_tok call_tok idx_rassoc call_rassoc.

(* ---- trees as the builder produces them -------------------------------------------------------- *)
Inductive ktree := K (kind : string) (leaf : option nat) (subs : list ktree).
Definition post_leaf (p : pop) : option nat := match p with P_DOT_NonTypeId n => Some n | _ => None end.
Definition pre_binder (u : uop) : option nat :=
  match u with U_T_SUM n | U_T_FORALL n | U_T_EXISTS n => Some n | _ => None end.
Fixpoint norm (e : exprG) : ktree :=
  match e with
  | Atom _ _ _ _ n => K "ATOM" (Some n) []
  | Bin _ _ _ _ o l r =>
      if bin_wraps_left_not o then K (bin_kind o) None [K "NOT" None [norm l]; norm r]
      else K (bin_kind o) None [norm l; norm r]
  | Un _ _ _ _ u x =>
      if String.eqb (pre_kind u) "(identity)" then norm x
      else match pre_binder u with
           | Some b => K (pre_kind u) None [K "BINDER" (Some b) []; norm x]
           | None => K (pre_kind u) None [norm x]
           end
  | Post _ _ _ _ p x => K (post_kind p) (post_leaf p) [norm x]
  | Ite _ _ _ _ c a b => K ite_kind None [norm c; norm a; norm b]
  | Idx _ _ _ _ a i => K "ARRAY" None [norm a; norm i]
  | Call _ _ _ _ f args => K "FUN_CALL" None (norm f :: map norm args)
  | Fn _ _ _ _ k a rest => K k None (norm a :: map norm rest)
  end.

(* ---- comparison with the reference table --------------------------------------------------------- *)
Inductive pending := PB (o : bop) | PU (u : uop) | PIte.
Inductive cont := CB (o : bop) | CP (p : pop) | CQ | CLP | CLB.
Definition cont_tok (c : cont) : tokG :=
  match c with CB o => TOp _ _ _ _ o | CP p => TPost _ _ _ _ p | CQ => TQ _ _ _ _ | CLP => LP _ _ _ _ | CLB => LB _ _ _ _ end.
Definition pending_prec (p : pending) : nat := match p with PB o => bin_rule o | PU u => pre_rule u | PIte => ite_rule end.
Definition gen_shifts (p : pending) (c : cont) : bool := rule_shiftsG (pending_prec p) (cont_tok c).

Definition cont_name (c : cont) : string :=
  match c with CB o => bin_name o | CP p => post_name p | CQ => "'?'" | CLP => "'('" | CLB => "'['" end.
Definition pending_ref_sym (p : pending) : string :=
  match p with PB o => ref_infix_rule_sym (bin_name o) | PU u => ref_prefix_rule_sym (pre_name u) | PIte => ref_ite_rule_sym end.
Definition ref_shifts (p : pending) (c : cont) : option bool :=
  match ref_prec (pending_ref_sym p), ref_prec (cont_name c) with
  | Some (pr, _), Some (pt, ra) => Some (Nat.ltb pr pt || (Nat.eqb pr pt && ra))
  | _, _ => None
  end.
(* the rule precedence symbols parser.y uses are those the language prescribes *)
Definition pending_gen_sym (p : pending) : string :=
  match p with PB o => bin_rule_sym o | PU u => pre_rule_sym u | PIte => ite_rule_sym end.

Definition kinds_ok : bool :=
  forallb (fun o => match assoc_find (bin_name o) ref_infix_kind with Some k => String.eqb k (bin_kind o) | None => false end) all_bop &&
  forallb (fun u => match assoc_find (pre_name u) ref_prefix_kind with Some k => String.eqb k (pre_kind u) | None => false end) all_uop &&
  forallb (fun p => match assoc_find (post_name p) ref_postfix_kind with Some k => String.eqb k (post_kind p) | None => false end) all_pop &&
  forallb (fun o => Bool.eqb (bin_wraps_left_not o) (String.eqb (bin_name o) "T_KW_IMPLY")) all_bop &&
  String.eqb ite_kind "INLINE_IF".

(* ---- the same renderer driven by the reference table (used to search for failing inputs when the
   regenerated table departs from the reference) ----------------------------------------------------- *)
Definition ref_num (s : string) : nat := match ref_prec s with Some (n, _) => n | None => 0 end.
Definition ref_ra (s : string) : bool := match ref_prec s with Some (_, b) => b | None => false end.
Definition flatR (full : bool) :=
  flat bop uop pop fnid
    (fun o => ref_num (ref_infix_rule_sym (bin_name o))) (fun o => ref_num (bin_name o)) (fun o => ref_ra (bin_name o))
    (fun u => ref_num (ref_prefix_rule_sym (pre_name u))) (fun p => ref_num (post_name p)) (fun p => ref_ra (post_name p))
    (ref_num ref_ite_rule_sym) (ref_num "'?'") (ref_ra "'?'") (ref_num "'['") (ref_num "'('") (ref_ra "'['") (ref_ra "'('") (fun _ _ => full) (fun _ _ => full) (fun _ => false).
