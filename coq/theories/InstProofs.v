(* C08: every sequence of template / instantiation / process operations keeps the instance invariant. *)
From Coq Require Import List Arith Bool Lia Permutation.
From Utap Require Import InstModel.
Import ListNotations.

Lemma In_firstn {A} (x : A) n l : In x (firstn n l) -> In x l.
Proof. intro H. rewrite <- (firstn_skipn n l). apply in_or_app; now left. Qed.
Lemma In_skipn {A} (x : A) n l : In x (skipn n l) -> In x l.
Proof. intro H. rewrite <- (firstn_skipn n l). apply in_or_app; now right. Qed.
Lemma NoDup_app_disj {A} (l1 l2 : list A) x : NoDup (l1 ++ l2) -> In x l1 -> ~ In x l2.
Proof.
  induction l1 as [|a l1 IH]; cbn; intros ND H; [destruct H|].
  inversion ND as [|? ? Ha ND']; subst. destruct H as [->|H]; [|now apply IH].
  intro K. apply Ha. apply in_or_app; now right.
Qed.
Lemma NoDup_app_intro {A} (l1 l2 : list A) : NoDup l1 -> NoDup l2 -> (forall x, In x l1 -> ~ In x l2) -> NoDup (l1 ++ l2).
Proof.
  induction l1 as [|a l1 IH]; cbn; intros N1 N2 H; [exact N2|].
  inversion N1 as [|? ? Ha N1']; subst. constructor.
  - rewrite in_app_iff. intros [K|K]; [now apply Ha | apply (H a); [now left | exact K]].
  - apply IH; [exact N1' | exact N2 | intros x Hx; apply H; now right].
Qed.
Lemma NoDup_app_tail {A} (l1 l2 : list A) : NoDup (l1 ++ l2) -> NoDup l2.
Proof. induction l1 as [|a l1 IH]; cbn; intro H; [exact H | inversion H; auto]. Qed.
Lemma keys_upd_notin m k v : ~ In k (keys m) -> keys (upd m k v) = keys m ++ [k].
Proof.
  induction m as [|[k' v'] m IH]; cbn; intro H; [reflexivity|].
  destruct (Nat.eqb_spec k k') as [->|N]; [exfalso; apply H; now left|].
  cbn. f_equal. apply IH. intro; apply H; now right.
Qed.
Lemma keys_bind : forall ps args m, NoDup ps -> (forall p, In p (firstn (length args) ps) -> ~ In p (keys m)) ->
  keys (bind m ps args) = keys m ++ firstn (length args) ps.
Proof.
  induction ps as [|p ps IH]; intros args m ND H.
  - destruct args; cbn; now rewrite app_nil_r.
  - destruct args as [|a args]; cbn [bind length firstn]; [now rewrite app_nil_r|].
    inversion ND as [|? ? Hp ND']; subst.
    rewrite IH; [|exact ND'|].
    + rewrite keys_upd_notin by (apply H; now left). now rewrite <- app_assoc.
    + intros q Hq. rewrite keys_upd_notin by (apply H; now left). rewrite in_app_iff. intros [K|[->|[]]].
      * apply (H q); [now right | exact K].
      * apply Hp. eapply In_firstn. exact Hq.
Qed.

Lemma seq_below a n : Forall (fun p => p < a + n) (seq a n).
Proof. apply Forall_forall. intros p H. apply in_seq in H. lia. Qed.

Lemma template_ok a n t : inst_ok (mkinst n (seq a n) [] n t).
Proof.
  unfold inst_ok; cbn [i_unbound i_params i_map i_arity keys map]. rewrite seq_length. split; [lia|]. split; [apply seq_NoDup|]. split; [|reflexivity].
  rewrite skipn_all2 by (rewrite seq_length; lia). constructor.
Qed.

Lemma instance_ok a n args old :
  inst_ok old -> below a old -> length args = i_arity old ->
  inst_ok (mkinst n (seq a n ++ i_params old) (bind (i_map old) (i_params old) args) n (i_templ old)).
Proof.
  intros (Hle & ND & Pm & Ar) Hb Ha. rewrite Ar in Ha.
  assert (Hdisj : forall p, In p (firstn (i_unbound old) (i_params old)) -> ~ In p (keys (i_map old))).
  { intros p Hp K. apply (Permutation_in _ Pm) in K.
    rewrite <- (firstn_skipn (i_unbound old) (i_params old)) in ND. exact (NoDup_app_disj _ _ p ND Hp K). }
  unfold inst_ok; cbn [i_unbound i_params i_map i_arity].
  rewrite app_length, seq_length. split; [lia|]. split; [|split; [|reflexivity]].
  - (* fresh symbols are new *)
    apply NoDup_app_intro; [apply seq_NoDup | exact ND |].
    intros p Hp K. apply in_seq in Hp. unfold below in Hb. rewrite Forall_forall in Hb. specialize (Hb p K). lia.
  - rewrite skipn_app, seq_length, Nat.sub_diag, skipn_all2 by (rewrite seq_length; lia). cbn [skipn app].
    rewrite keys_bind by (try exact ND; rewrite Ha; exact Hdisj). rewrite Ha.
    etransitivity; [apply Permutation_app_comm|].
    etransitivity; [apply Permutation_app_head; exact Pm|].
    now rewrite firstn_skipn.
Qed.

Lemma below_mono n m i : n <= m -> below n i -> below m i.
Proof. unfold below; intros H F. eapply Forall_impl; [|exact F]. cbn; intros; lia. Qed.
Lemma Forall_below_mono n m l : n <= m -> Forall (below n) l -> Forall (below m) l.
Proof. intros H F. eapply Forall_impl; [|exact F]. intro i; now apply below_mono. Qed.

Theorem inv_step s o : Inv s -> Inv (step s o).
Proof.
  intros (Hi & Hp & Hb). destruct o as [n|from n args|from]; cbn [step].
  - repeat split; cbn [s_insts s_procs s_next].
    + apply Forall_app; split; [exact Hi | constructor; [apply template_ok | constructor]].
    + exact Hp.
    + apply Forall_app; split; [eapply Forall_below_mono; [|exact Hb]; lia | constructor; [apply seq_below | constructor]].
  - destruct (nth_error (s_insts s) from) as [old|] eqn:E.
    + destruct (Nat.eqb_spec (length args) (i_arity old)) as [L|L].
      * apply nth_error_In in E. rewrite Forall_forall in Hi, Hb.
        repeat split; cbn [s_insts s_procs s_next].
        -- apply Forall_app; split; [now apply Forall_forall | constructor; [|constructor]].
           apply instance_ok; [apply Hi, E | apply Hb, E | exact L].
        -- exact Hp.
        -- apply Forall_app; split.
           ++ eapply Forall_below_mono; [|apply Forall_forall; exact Hb]; lia.
           ++ constructor; [|constructor]. unfold below; cbn [i_params]. apply Forall_app; split; [apply seq_below|].
              eapply (below_mono (s_next s)); [lia | apply Hb, E].
      * repeat split; cbn [s_insts s_procs s_next]; [exact Hi | exact Hp | eapply Forall_below_mono; [|exact Hb]; lia].
    + repeat split; cbn [s_insts s_procs s_next]; [exact Hi | exact Hp | eapply Forall_below_mono; [|exact Hb]; lia].
  - destruct (nth_error (s_insts s) from) as [i|] eqn:E; [|now repeat split].
    apply nth_error_In in E. rewrite Forall_forall in Hi.
    repeat split; cbn [s_insts s_procs s_next]; [now apply Forall_forall | | exact Hb].
    apply Forall_app; split; [exact Hp | constructor; [apply Hi, E | constructor]].
Qed.
Theorem inv_all os : Inv (run os st0).
Proof.
  unfold run. assert (H : Inv st0) by (repeat split; constructor).
  revert H. generalize st0. induction os as [|o os IH]; cbn [fold_left]; intros s H; [exact H | apply IH, inv_step, H].
Qed.

(* the invariant in the words of the statement *)
Lemma inst_ok_statement i : inst_ok i ->
  (forall k p, k < i_unbound i -> nth_error (i_params i) k = Some p -> ~ In p (keys (i_map i)))
  /\ (forall k p, i_unbound i <= k -> nth_error (i_params i) k = Some p -> In p (keys (i_map i)))
  /\ length (i_map i) = length (i_params i) - i_unbound i
  /\ NoDup (keys (i_map i))
  /\ i_arity i = i_unbound i.
Proof.
  intros (Hle & ND & Pm & Ar). repeat split; [| | | | exact Ar].
  - intros k p Hk E K. apply (Permutation_in _ Pm) in K.
    assert (F : In p (firstn (i_unbound i) (i_params i))).
    { rewrite <- (firstn_skipn (i_unbound i) (i_params i)) in E.
      rewrite nth_error_app1 in E by (rewrite firstn_length; lia). now apply nth_error_In in E. }
    rewrite <- (firstn_skipn (i_unbound i) (i_params i)) in ND. exact (NoDup_app_disj _ _ p ND F K).
  - intros k p Hk E. apply (Permutation_in _ (Permutation_sym Pm)).
    rewrite <- (firstn_skipn (i_unbound i) (i_params i)) in E.
    rewrite nth_error_app2 in E by (rewrite firstn_length; lia). now apply nth_error_In in E.
  - unfold keys in Pm. apply Permutation_length in Pm. rewrite map_length, skipn_length in Pm. exact Pm.
  - apply (Permutation_NoDup (Permutation_sym Pm)).
    rewrite <- (firstn_skipn (i_unbound i) (i_params i)) in ND. now apply NoDup_app_tail in ND.
Qed.

(* numbering: whatever is added, the numbers are 0, 1, 2, ... in order *)
Lemma add_nr_dense nrs : nrs = seq 0 (length nrs) -> add_nr nrs = seq 0 (length (add_nr nrs)).
Proof. unfold add_nr; intro H. rewrite app_length; cbn [length]. rewrite Nat.add_1_r, seq_S, <- H. reflexivity. Qed.
Theorem numbering_dense n : Nat.iter n add_nr [] = seq 0 n.
Proof.
  induction n as [|n IH]; [reflexivity|].
  change (Nat.iter (S n) add_nr []) with (add_nr (Nat.iter n add_nr [])). rewrite IH.
  unfold add_nr. now rewrite seq_length, seq_S.
Qed.

(* ---- back pointers ---- *)
Lemma nth_set {A} (d : A) (l : list A) c x k : c < length l ->
  nth k (firstn c l ++ [x] ++ skipn (S c) l) d = if Nat.eqb k c then x else nth k l d.
Proof.
  intro H. destruct (Nat.eqb_spec k c) as [->|N].
  - rewrite app_nth2; rewrite firstn_length, Nat.min_l by lia; [|lia]. now rewrite Nat.sub_diag.
  - destruct (Nat.lt_ge_cases k c) as [L|G].
    + rewrite app_nth1 by (rewrite firstn_length; lia). rewrite <- (firstn_skipn c l) at 2.
      now rewrite app_nth1 by (rewrite firstn_length; lia).
    + rewrite app_nth2; rewrite firstn_length, Nat.min_l by lia; [|lia].
      destruct (k - c) as [|j] eqn:E; [lia|]. cbn [app nth].
      rewrite <- (firstn_skipn (S c) l) at 2. rewrite app_nth2; rewrite firstn_length, Nat.min_l by lia; [|lia].
      f_equal. lia.
Qed.
Theorem y_add_ok t c name : y_ok t -> y_ok (y_add t c name).
Proof.
  intros H c' i u. unfold y_add. cbn [y_objs y_syms].
  set (pad := y_objs t ++ repeat [] (S c - length (y_objs t))).
  assert (Lp : c < length pad) by (subst pad; rewrite app_length, repeat_length; lia).
  assert (Np : forall k, nth k pad [] = nth k (y_objs t) []).
  { intro k. subst pad. destruct (Nat.lt_ge_cases k (length (y_objs t))) as [L|G].
    - now rewrite app_nth1.
    - rewrite app_nth2 by lia. rewrite (nth_overflow (y_objs t)) by lia.
      destruct (Nat.lt_ge_cases (k - length (y_objs t)) (S c - length (y_objs t))) as [L'|G'].
      + apply nth_repeat.
      + apply nth_overflow. rewrite repeat_length. lia. }
  rewrite nth_set by exact Lp. destruct (Nat.eqb_spec c' c) as [->|N].
  - intro E. destruct (Nat.lt_ge_cases i (length (nth c (y_objs t) []))) as [L|G].
    + rewrite nth_error_app1 in E by exact L. destruct (H c i u E) as [nm Hn]. exists nm.
      rewrite nth_error_app1; [exact Hn | apply nth_error_Some; congruence].
    + rewrite nth_error_app2 in E by exact G. destruct (i - length (nth c (y_objs t) [])) as [|j] eqn:D.
      * cbn in E. injection E as <-. exists name. rewrite nth_error_app2 by lia. rewrite Nat.sub_diag. cbn.
        repeat f_equal. lia.
      * cbn in E. destruct j; discriminate.
  - rewrite Np. intro E. destruct (H c' i u E) as [nm Hn]. exists nm.
    rewrite nth_error_app1; [exact Hn | apply nth_error_Some; congruence].
Qed.
Theorem y_all (ops : list (nat * nat)) : y_ok (fold_left (fun t o => y_add t (fst o) (snd o)) ops (mksymtab [] [])).
Proof.
  assert (H : y_ok (mksymtab [] [])) by (intros c i u E; cbn in E; destruct c; destruct i; discriminate).
  revert H. generalize (mksymtab [] []). induction ops as [|o ops IH]; cbn [fold_left]; intros t H; [exact H | apply IH, y_add_ok, H].
Qed.
