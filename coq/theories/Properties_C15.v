(* C15 — a parse result depends only on its input, not on earlier parses in the process.
   State.v models the process-global variables of the parser and the order in which every public entry point
   accesses them; Position.v gives line/column as a function of the block alone. *)
From Coq Require Import List Bool Arith NArith.
From Utap.gen Require Gen_StartCond.
From Utap Require StartCond.
From Utap Require Import Position State.
Import ListNotations.

(* No entry point reads a global before writing it, except the running position counter and the scanner's start
   condition: parse_XTA(text, part), parseProperty(text), parse_XTA(text) and parse_XML_* with any number of blocks *)
Theorem C15_part_reads_nothing_stale : only_counter_and_startcond (exposed (accesses EPartString) []) = true.
Proof. exact part_exposed. Qed.
Theorem C15_property_reads_nothing_stale : only_counter_and_startcond (exposed (accesses EPropertyString) []) = true.
Proof. exact property_exposed. Qed.
Theorem C15_xta_reads_nothing_stale : only_counter_and_startcond (exposed (accesses EXtaString) []) = true.
Proof. exact xta_exposed. Qed.
Theorem C15_xml_reads_nothing_stale n : only_counter_and_startcond (exposed (accesses (EXmlBuffer n)) []) = true.
Proof. exact (xml_exposed n). Qed.
(* the counter only shifts absolute positions: path, line and column of every offset of a block are the same
   whatever value t0 the counter had before the block (they are `resolve` of the block's lexemes) *)
Theorem C15_counter_translation_invariant t0 t0' path ls k :
  let '(t1, e0) := set_path t0 path in let '(t1', e0') := set_path t0' path in
  let e := find (e0 :: snd (lex_all t1 ls)) (S (t_pos t0) + k) in
  let e' := find (e0' :: snd (lex_all t1' ls)) (S (t_pos t0') + k) in
  e_line e = e_line e' /\ (S (t_pos t0) + k) - e_pos e = (S (t_pos t0') + k) - e_pos e' /\ e_path e = e_path e'.
Proof.
  pose proof (linecol_correct t0 path ls k) as A. pose proof (linecol_correct t0' path ls k) as B.
  unfold set_path in *. cbv zeta in *. destruct (resolve ls 0 k 1 0) as [line start].
  destruct A as (A1 & A2 & _ & A4). destruct B as (B1 & B2 & _ & B4). repeat split; congruence.
Qed.
(* below the 32-bit wrap the index accepts every new entry; at the wrap it throws (known finding) *)
Theorem C15_below_wrap start len : (start + len < 2^32)%N -> add32 start (wrap32 (start + len)) = true.
Proof. exact (below_wrap_ok start len). Qed.
Theorem C15_wrap_refuted : exists start len, (start < 2^32)%N /\ add32 start (wrap32 (start + len)) = false.
Proof. exact wrap_refuted. Qed.

(* the lexer's start condition, the second piece of state an entry point reads before writing it: with the transition table
   regenerated from lexer.l, every sequence of parses — whatever their texts, also texts that end inside a comment — leaves
   the scanner in INITIAL, so a parse starts as in a fresh process *)
Theorem C15_start_condition_reset : forall texts : list (list StartCond.ev), StartCond.session Gen_StartCond.gen_sc StartCond.INITIAL texts = StartCond.INITIAL.
Proof. exact (StartCond.session_always_initial Gen_StartCond.gen_sc eq_refl). Qed.

(* several documents alive at once, one global counter (MultiDoc.v): whatever models, queries and block texts are parsed on whichever documents in whatever
   order, no call meets the position index's "positions must increase" exception, because the counter never moves back; a front end that restarts the counter
   for every model does meet it, on a document that outlives the parse of a shorter model *)
From Utap Require MultiDoc.
Theorem C15_interleaved_documents : forall cs : list MultiDoc.call, MultiDoc.w_threw (fold_left (MultiDoc.step false) cs MultiDoc.w0) = false.
Proof. exact MultiDoc.interleaved_documents_never_throw. Qed.
Print Assumptions C15_interleaved_documents.
Theorem C15_counter_restart_refuted : exists cs : list MultiDoc.call, MultiDoc.w_threw (fold_left (MultiDoc.step true) cs MultiDoc.w0) = true.
Proof. eexists. exact (proj1 MultiDoc.restart_refuted). Qed.
Print Assumptions C15_counter_restart_refuted.

