(* C10 — only convex clock constraints are accepted as guards and invariants.
   `ty` computes the type TypeChecker::checkExpression assigns (Typing.v clauses), `accepted` is what
   visitEdge (is_guard) / visitLocation (isInvariantWR) let through, `convex` is the property's definition. *)
From Coq Require Import List Bool.
From Utap Require Import Typing Convex.
Import ListNotations.

(* Full statement (kept visible): forall f c, ty f = Some c -> accepted c = true -> convex f = true.
   It is false of the faithful model, and of the code (known findings C10-neq-numeric / C10-rel-diff): *)
Theorem C10_refuted : exists f c, ty f = Some c /\ accepted c = true /\ convex f = false.
Proof. exact unrestricted_refuted. Qed.
(* It holds for every formula (any depth) that avoids the clock comparisons typed as plain booleans: *)
Theorem C10_accepted_convex_outside f c : atoms_ok f = true -> ty f = Some c -> accepted c = true -> convex f = true.
Proof. exact (accepted_convex f c). Qed.
(* a formula typed as a plain boolean mentions no clock at all (same restriction) *)
Theorem C10_boolean_is_clock_free f c : atoms_ok f = true -> ty f = Some c -> is_integral c = true -> clock_free f = true.
Proof. exact (integral_clock_free f c). Qed.
(* conversely every plain conjunction of accepted atoms is accepted *)
Theorem C10_conjunction_complete l :
  Forall (fun a => is_atom a = true /\ exists c, ty a = Some c /\ accepted c = true) l -> exists c, ty (conj l) = Some c /\ accepted c = true.
Proof. exact (conj_complete l). Qed.
(* the restriction excludes exactly 16 of the 96 atom shapes *)
Example C10_atoms_ok_count :
  List.length (filter (fun x => match x with (r, a, b) => negb (atom_ok r a b) end)
    (flat_map (fun r => flat_map (fun a => map (fun b => (r, a, b)) [EInt; EDouble; EClock; EDiff]) [EInt; EDouble; EClock; EDiff]) [RLt; RLe; RGe; RGt; REq; RNeq])) = 16.
Proof. vm_compute. reflexivity. Qed.
Example C10_nonvacuous : atoms_ok (FOr (FCmp RLt EClock EInt) FBool) = true /\ ty (FOr (FCmp RLt EClock EInt) FBool) = Some CInvariant /\ accepted CInvariant = true.
Proof. vm_compute. repeat split; reflexivity. Qed.
