(* C15 / C16: flex keeps its start condition (INITIAL or comment) in a static variable that survives from one parse to
   the next.  If both end-of-input rules leave INITIAL behind, every parse — whatever its text — returns the lexer to
   INITIAL, so no parse can see what an earlier one left. *)
From Coq Require Import List.
Import ListNotations.
Inductive cond := INITIAL | COMMENT.
Inductive ev := OpenC | CloseC | Other | Eof.          (* the lexemes that matter: "/*", "*/", anything else, end of the buffer *)
Definition cond_eqb (a b : cond) : bool := match a, b with INITIAL, INITIAL | COMMENT, COMMENT => true | _, _ => false end.
Section Table.
Variable tbl : cond -> ev -> cond.
(* one parse: the scanner consumes lexemes until the end of the buffer, where the rule for <<EOF>> runs and scanning stops *)
Fixpoint scan (c : cond) (es : list ev) : cond :=
  match es with [] => tbl c Eof | Eof :: _ => tbl c Eof | e :: r => scan (tbl c e) r end.
Definition eof_resets : bool := cond_eqb (tbl INITIAL Eof) INITIAL && cond_eqb (tbl COMMENT Eof) INITIAL.
Lemma scan_ends_initial : eof_resets = true -> forall es c, scan c es = INITIAL.
Proof.
  unfold eof_resets. intro H. apply andb_prop in H as [H1 H2].
  assert (E : forall c, tbl c Eof = INITIAL) by (intros []; [destruct (tbl INITIAL Eof) | destruct (tbl COMMENT Eof)]; try reflexivity; discriminate).
  induction es as [|e r IH]; intro c; cbn [scan]; [apply E|]. destruct e; try apply IH. apply E.
Qed.
(* a sequence of parses in one process: each starts in the condition the previous one left *)
Definition session (c : cond) (texts : list (list ev)) : cond := fold_left scan texts c.
Theorem session_always_initial : eof_resets = true -> forall texts, session INITIAL texts = INITIAL.
Proof.
  intros H texts. unfold session. induction texts as [|t r IH] using rev_ind; [reflexivity|].
  rewrite fold_left_app. cbn [fold_left]. now apply scan_ends_initial.
Qed.
(* hence the tokens of a parse do not depend on the parses before it *)
Corollary history_independent : eof_resets = true -> forall before, session INITIAL before = session INITIAL [].
Proof. intros H before. now rewrite !session_always_initial. Qed.
End Table.
