(* C10: boolean formulas over integer predicates and atomic clock comparisons, typed by the clauses
   of Typing.v; accepted as guard (is_guard) or invariant (isInvariantWR) only if convex. *)
From Coq Require Import List Bool Arith.
From Utap Require Import Typing.
Import ListNotations.

Inductive operand := EInt | EDouble | EClock | EDiff.            (* i, d, x, x - y *)
Definition opcls (o : operand) : cls := match o with EInt => CInt | EDouble => CDouble | EClock => CClock | EDiff => CDiff end.
Definition has_clock (o : operand) : bool := match o with EClock | EDiff => true | _ => false end.
Inductive rel := RLt | RLe | RGe | RGt | REq | RNeq.
Definition rel_op (r : rel) : bop := match r with RLt => OLt | RLe => OLe | RGe => OGe | RGt => OGt | REq => OEq | RNeq => ONeq end.

Inductive form :=
  | FBool                                   (* integer predicate / boolean variable *)
  | FCmp (r : rel) (a b : operand)          (* atomic comparison *)
  | FAnd (a b : form) | FOr (a b : form) | FXor (a b : form) | FEq (a b : form) | FNeq (a b : form)
  | FNot (a : form) | FImply (a b : form) | FForall (a : form) | FExists (a : form).

Definition bind2 (f : cls -> cls -> option cls) (a b : option cls) : option cls :=
  match a, b with Some x, Some y => f x y | _, _ => None end.
Definition bind1 (f : cls -> option cls) (a : option cls) : option cls := match a with Some x => f x | None => None end.
(* the type the checker computes (None: some sub-expression is a type error) *)
Fixpoint ty (f : form) : option cls :=
  match f with
  | FBool => Some CBool
  | FCmp r a b => bin_type (rel_op r) (opcls a) (opcls b)
  | FAnd a b => bind2 (bin_type OAnd) (ty a) (ty b)
  | FOr a b => bind2 (bin_type OOr) (ty a) (ty b)
  | FXor a b => bind2 (bin_type OXor) (ty a) (ty b)
  | FEq a b => bind2 (bin_type OEq) (ty a) (ty b)
  | FNeq a b => bind2 (bin_type ONeq) (ty a) (ty b)
  | FNot a => bind1 not_type (ty a)
  | FImply a b => bind2 (bin_type OOr) (bind1 not_type (ty a)) (ty b)       (* a imply b  ==  !a || b *)
  | FForall a => bind1 forall_type (ty a)
  | FExists a => bind1 exists_type (ty a)
  end.

Fixpoint clock_free (f : form) : bool :=
  match f with
  | FBool => true
  | FCmp _ a b => negb (has_clock a) && negb (has_clock b)
  | FAnd a b | FOr a b | FXor a b | FEq a b | FNeq a b | FImply a b => clock_free a && clock_free b
  | FNot a | FForall a | FExists a => clock_free a
  end.
(* clock comparisons only under conjunction, universal quantification, or disjunction with a clock-free operand *)
Fixpoint convex (f : form) : bool :=
  match f with
  | FBool | FCmp _ _ _ => true
  | FAnd a b => convex a && convex b
  | FOr a b => (clock_free a && convex b) || (convex a && clock_free b)
  | FNot a => clock_free a
  | FImply a b => clock_free a && convex b
  | FXor a b | FEq a b | FNeq a b => clock_free a && clock_free b
  | FForall a => convex a
  | FExists a => clock_free a
  end.

(* An atomic comparison that involves a clock but is typed as a plain boolean by the numeric fall-through
   clauses ("is_number && is_number", clock == clock being "equivalent" types).  On the pinned code
   these exist (C10_refuted); the soundness theorem is stated for formulas without them. *)
Definition atom_ok (r : rel) (a b : operand) : bool :=
  negb ((has_clock a || has_clock b) && match bin_type (rel_op r) (opcls a) (opcls b) with Some c => is_integral c | None => false end).
Fixpoint atoms_ok (f : form) : bool :=
  match f with
  | FBool => true
  | FCmp r a b => atom_ok r a b
  | FAnd a b | FOr a b | FXor a b | FEq a b | FNeq a b | FImply a b => atoms_ok a && atoms_ok b
  | FNot a | FForall a | FExists a => atoms_ok a
  end.

(* what visitEdge / visitLocation accept *)
Definition accepted (c : cls) : bool := is_guard c || isInvariantWR c.
Definition fclass (c : cls) : bool := match c with CBool | CInvariant | CGuard | CConstraint => true | _ => false end.

(* ---- class-level facts, by exhaustive case analysis ---------------------------------------------- *)
Ltac cases2 a b := destruct a; destruct b; cbn; intros; try discriminate; try reflexivity;
  repeat match goal with H : Some _ = Some _ |- _ => inversion H; subst; clear H end; cbn in *; try discriminate; try reflexivity.
Lemma cmp_fclass r a b c : bin_type (rel_op r) (opcls a) (opcls b) = Some c -> fclass c = true.
Proof. destruct r, a, b; cbn; intros H; inversion H; reflexivity. Qed.
Lemma cmp_integral r a b c : atom_ok r a b = true -> bin_type (rel_op r) (opcls a) (opcls b) = Some c -> is_integral c = true -> has_clock a = false /\ has_clock b = false.
Proof. destruct r, a, b; cbn; intros O H; inversion H; subst; cbn; intros; try discriminate; auto. Qed.
Lemma and_fclass a b c : fclass a = true -> fclass b = true -> bin_type OAnd a b = Some c -> fclass c = true.
Proof. cases2 a b. Qed.
Lemma or_fclass a b c : fclass a = true -> fclass b = true -> bin_type OOr a b = Some c -> fclass c = true.
Proof. cases2 a b. Qed.
Lemma xor_fclass a b c : bin_type OXor a b = Some c -> c = CBool /\ is_integral a = true /\ is_integral b = true.
Proof. cases2 a b; auto. Qed.
Lemma eq_fclass a b c : fclass a = true -> fclass b = true -> bin_type OEq a b = Some c -> c = CBool /\ is_integral a = true /\ is_integral b = true.
Proof. cases2 a b; auto. Qed.
Lemma neq_fclass a b c : fclass a = true -> fclass b = true -> bin_type ONeq a b = Some c -> c = CBool /\ is_integral a = true /\ is_integral b = true.
Proof. cases2 a b; auto. Qed.
Lemma not_fclass a c : fclass a = true -> not_type a = Some c -> fclass c = true.
Proof. destruct a; cbn; intros; try discriminate; inversion H0; reflexivity. Qed.
Lemma forall_fclass a c : fclass a = true -> forall_type a = Some c -> c = a.
Proof. destruct a; cbn; intros; try discriminate; inversion H0; reflexivity. Qed.
Lemma exists_fclass a c : fclass a = true -> exists_type a = Some c -> fclass c = true.
Proof. destruct a; cbn; intros; try discriminate; inversion H0; reflexivity. Qed.

Lemma and_integral a b c : bin_type OAnd a b = Some c -> is_integral c = true -> is_integral a = true /\ is_integral b = true.
Proof. cases2 a b; auto. Qed.
Lemma or_integral a b c : bin_type OOr a b = Some c -> is_integral c = true -> is_integral a = true /\ is_integral b = true.
Proof. cases2 a b; auto. Qed.
Lemma not_integral a c : not_type a = Some c -> is_integral c = true -> is_integral a = true.
Proof. destruct a; cbn; intros; try discriminate; try reflexivity; inversion H; subst; discriminate. Qed.
Lemma forall_integral a c : forall_type a = Some c -> is_integral c = true -> is_integral a = true.
Proof. destruct a; cbn; intros; try discriminate; try reflexivity; inversion H; subst; discriminate. Qed.
Lemma exists_integral a c : exists_type a = Some c -> is_integral c = true -> is_integral a = true.
Proof. destruct a; cbn; intros; try discriminate; try reflexivity; inversion H; subst; discriminate. Qed.

Lemma and_accepted a b c : fclass a = true -> fclass b = true -> bin_type OAnd a b = Some c -> accepted c = true -> accepted a = true /\ accepted b = true.
Proof. cases2 a b; auto. Qed.
Lemma or_accepted a b c : fclass a = true -> fclass b = true -> bin_type OOr a b = Some c -> accepted c = true ->
  (is_integral a = true /\ accepted b = true) \/ (accepted a = true /\ is_integral b = true).
Proof. cases2 a b; auto. Qed.
Lemma not_accepted a c : fclass a = true -> not_type a = Some c -> accepted c = true -> is_integral a = true.
Proof. destruct a; cbn; intros; try discriminate; try reflexivity; inversion H0; subst; discriminate. Qed.
Lemma exists_accepted a c : fclass a = true -> exists_type a = Some c -> accepted c = true -> is_integral a = true.
Proof. destruct a; cbn; intros; try discriminate; try reflexivity; inversion H0; subst; discriminate. Qed.
Lemma and_complete a b : accepted a = true -> accepted b = true -> fclass a = true -> fclass b = true ->
  exists c, bin_type OAnd a b = Some c /\ accepted c = true.
Proof. destruct a; destruct b; cbn; intros; try discriminate; eexists; split; reflexivity. Qed.

(* ---- formulas ---------------------------------------------------------------------------------------- *)
Lemma ty_fclass : forall f c, ty f = Some c -> fclass c = true.
Proof.
  induction f; cbn [ty]; intros c H.
  - inversion H; reflexivity.
  - eapply cmp_fclass; eauto.
  - destruct (ty f1) as [x|] eqn:E1; [|discriminate]. destruct (ty f2) as [y|] eqn:E2; [|discriminate]. cbn [bind2] in H. eapply and_fclass; [apply (IHf1 _ eq_refl)|apply (IHf2 _ eq_refl)|exact H].
  - destruct (ty f1) as [x|] eqn:E1; [|discriminate]. destruct (ty f2) as [y|] eqn:E2; [|discriminate]. cbn [bind2] in H. eapply or_fclass; [apply (IHf1 _ eq_refl)|apply (IHf2 _ eq_refl)|exact H].
  - destruct (ty f1) as [x|] eqn:E1; [|discriminate]. destruct (ty f2) as [y|] eqn:E2; [|discriminate]. cbn [bind2] in H. destruct (xor_fclass _ _ _ H) as [-> _]. reflexivity.
  - destruct (ty f1) as [x|] eqn:E1; [|discriminate]. destruct (ty f2) as [y|] eqn:E2; [|discriminate]. cbn [bind2] in H. destruct (eq_fclass _ _ _ (IHf1 _ eq_refl) (IHf2 _ eq_refl) H) as [-> _]. reflexivity.
  - destruct (ty f1) as [x|] eqn:E1; [|discriminate]. destruct (ty f2) as [y|] eqn:E2; [|discriminate]. cbn [bind2] in H. destruct (neq_fclass _ _ _ (IHf1 _ eq_refl) (IHf2 _ eq_refl) H) as [-> _]. reflexivity.
  - destruct (ty f) as [x|] eqn:E1; [|discriminate]. cbn [bind1] in H. eapply not_fclass; [apply (IHf _ eq_refl)|exact H].
  - destruct (ty f1) as [x|] eqn:E1; [|discriminate]. cbn [bind1] in H. destruct (not_type x) as [nx|] eqn:N; [|discriminate].
    destruct (ty f2) as [y|] eqn:E2; [|discriminate]. cbn [bind2] in H. eapply or_fclass; [eapply not_fclass; [apply (IHf1 _ eq_refl)|exact N]|apply (IHf2 _ eq_refl)|exact H].
  - destruct (ty f) as [x|] eqn:E1; [|discriminate]. cbn [bind1] in H. rewrite (forall_fclass _ _ (IHf _ eq_refl) H). auto.
  - destruct (ty f) as [x|] eqn:E1; [|discriminate]. cbn [bind1] in H. eapply exists_fclass; [apply (IHf _ eq_refl)|exact H].
Qed.

Ltac two E1 E2 x y H f1 f2 :=
  destruct (ty f1) as [x|] eqn:E1; [|discriminate]; destruct (ty f2) as [y|] eqn:E2; [|discriminate]; cbn [bind2] in H.

Lemma integral_clock_free : forall f c, atoms_ok f = true -> ty f = Some c -> is_integral c = true -> clock_free f = true.
Proof.
  induction f; cbn [ty clock_free atoms_ok]; intros c OK H I;
    try (apply andb_true_iff in OK as [OK1 OK2]).
  - reflexivity.
  - destruct (cmp_integral _ _ _ _ OK H I) as [-> ->]. reflexivity.
  - two E1 E2 x y H f1 f2. destruct (and_integral _ _ _ H I). rewrite (IHf1 x), (IHf2 y); auto.
  - two E1 E2 x y H f1 f2. destruct (or_integral _ _ _ H I). rewrite (IHf1 x), (IHf2 y); auto.
  - two E1 E2 x y H f1 f2. destruct (xor_fclass _ _ _ H) as (_ & ? & ?). rewrite (IHf1 x), (IHf2 y); auto.
  - two E1 E2 x y H f1 f2. destruct (eq_fclass _ _ _ (ty_fclass _ _ E1) (ty_fclass _ _ E2) H) as (_ & ? & ?). rewrite (IHf1 x), (IHf2 y); auto.
  - two E1 E2 x y H f1 f2. destruct (neq_fclass _ _ _ (ty_fclass _ _ E1) (ty_fclass _ _ E2) H) as (_ & ? & ?). rewrite (IHf1 x), (IHf2 y); auto.
  - destruct (ty f) as [x|] eqn:E1; [|discriminate]. cbn [bind1] in H. apply (IHf x); auto. eapply not_integral; eauto.
  - destruct (ty f1) as [x|] eqn:E1; [|discriminate]. cbn [bind1] in H. destruct (not_type x) as [nx|] eqn:N; [|discriminate].
    destruct (ty f2) as [y|] eqn:E2; [|discriminate]. cbn [bind2] in H. destruct (or_integral _ _ _ H I) as [I1 I2].
    rewrite (IHf1 x), (IHf2 y); auto. eapply not_integral; eauto.
  - destruct (ty f) as [x|] eqn:E1; [|discriminate]. cbn [bind1] in H. apply (IHf x); auto. eapply forall_integral; eauto.
  - destruct (ty f) as [x|] eqn:E1; [|discriminate]. cbn [bind1] in H. apply (IHf x); auto. eapply exists_integral; eauto.
Qed.

Theorem accepted_convex : forall f c, atoms_ok f = true -> ty f = Some c -> accepted c = true -> convex f = true.
Proof.
  induction f; cbn [ty convex atoms_ok]; intros c OK H A; try reflexivity;
    try (apply andb_true_iff in OK as [OK1 OK2]).
  - two E1 E2 x y H f1 f2.
    destruct (and_accepted _ _ _ (ty_fclass _ _ E1) (ty_fclass _ _ E2) H A). rewrite (IHf1 x), (IHf2 y); auto.
  - two E1 E2 x y H f1 f2.
    destruct (or_accepted _ _ _ (ty_fclass _ _ E1) (ty_fclass _ _ E2) H A) as [[I B]|[B I]].
    + rewrite (integral_clock_free f1 x OK1 E1 I), (IHf2 y OK2 eq_refl B). reflexivity.
    + rewrite (IHf1 x OK1 eq_refl B), (integral_clock_free f2 y OK2 E2 I). apply orb_true_r.
  - two E1 E2 x y H f1 f2.
    destruct (xor_fclass _ _ _ H) as (_ & I1 & I2). rewrite (integral_clock_free f1 x OK1 E1 I1), (integral_clock_free f2 y OK2 E2 I2). reflexivity.
  - two E1 E2 x y H f1 f2.
    destruct (eq_fclass _ _ _ (ty_fclass _ _ E1) (ty_fclass _ _ E2) H) as (_ & I1 & I2).
    rewrite (integral_clock_free f1 x OK1 E1 I1), (integral_clock_free f2 y OK2 E2 I2). reflexivity.
  - two E1 E2 x y H f1 f2.
    destruct (neq_fclass _ _ _ (ty_fclass _ _ E1) (ty_fclass _ _ E2) H) as (_ & I1 & I2).
    rewrite (integral_clock_free f1 x OK1 E1 I1), (integral_clock_free f2 y OK2 E2 I2). reflexivity.
  - destruct (ty f) as [x|] eqn:E1; [|discriminate]. cbn [bind1] in H.
    apply (integral_clock_free f x OK E1). eapply not_accepted; eauto. eapply ty_fclass; eauto.
  - destruct (ty f1) as [x|] eqn:E1; [|discriminate]. cbn [bind1] in H. destruct (not_type x) as [nx|] eqn:N; [|discriminate].
    destruct (ty f2) as [y|] eqn:E2; [|discriminate]. cbn [bind2] in H.
    assert (Fx : fclass x = true) by (eapply ty_fclass; eauto).
    destruct (or_accepted _ _ _ (not_fclass _ _ Fx N) (ty_fclass _ _ E2) H A) as [[I B]|[B I]].
    + rewrite (integral_clock_free f1 x OK1 E1 (not_integral _ _ N I)), (IHf2 y OK2 eq_refl B). reflexivity.
    + rewrite (integral_clock_free f1 x OK1 E1 (not_accepted _ _ Fx N B)). rewrite (IHf2 y OK2 eq_refl); [reflexivity|].
      destruct y; cbn in I; try discriminate; reflexivity.
  - destruct (ty f) as [x|] eqn:E1; [|discriminate]. cbn [bind1] in H.
    rewrite (forall_fclass _ _ (ty_fclass _ _ E1) H) in A. apply (IHf x OK eq_refl A).
  - destruct (ty f) as [x|] eqn:E1; [|discriminate]. cbn [bind1] in H.
    apply (integral_clock_free f x OK E1). eapply exists_accepted; eauto. eapply ty_fclass; eauto.
Qed.

(* on the pinned code the unrestricted statement is false: !(x != y) is accepted and is not convex *)
Lemma unrestricted_refuted : exists f c, ty f = Some c /\ accepted c = true /\ convex f = false.
Proof. exists (FNot (FCmp RNeq EClock EClock)), CBool. vm_compute. repeat split; reflexivity. Qed.

(* every plain conjunction of accepted atoms is accepted *)
Fixpoint conj (l : list form) : form := match l with [] => FBool | [x] => x | x :: r => FAnd x (conj r) end.
Definition is_atom (f : form) : bool := match f with FBool | FCmp _ _ _ => true | _ => false end.
Theorem conj_complete : forall l, Forall (fun a => is_atom a = true /\ exists c, ty a = Some c /\ accepted c = true) l ->
  exists c, ty (conj l) = Some c /\ accepted c = true.
Proof.
  induction l as [|x l IH]; intros H.
  - exists CBool. split; reflexivity.
  - inversion H as [|? ? [Hx (cx & Tx & Ax)] Hl]; subst. destruct l as [|y l'].
    + exists cx. auto.
    + destruct (IH Hl) as (cr & Tr & Ar). cbn [conj ty] in *. change (conj (y :: l')) with (match l' with [] => y | _ => FAnd y (conj l') end) in Tr.
      rewrite Tx. cbn [conj] in Tr |- *. rewrite Tr. cbn [bind2].
      apply and_complete; auto; eapply ty_fclass; eauto.
Qed.
