(* C02 / C09: facts about the scanner of LexModel.v that hold for every literal table and every text. *)
From Coq Require Import List Arith Bool Ascii String Lia.
From Utap Require Import CommentLex LexModel.
Import ListNotations.

(* ---------- longest match, first rule among equals ---------- *)
Lemma pick_ge cs : forall b n, n <= snd (pick cs b n).
Proof. induction cs as [|[l k] cs IH]; intros b n; cbn [pick]; [cbn; lia|]. destruct (Nat.ltb_spec n k); [apply Nat.le_trans with k; [lia | apply IH] | apply IH]. Qed.
Lemma pick_max cs : forall b n l k, In (l, k) cs -> k <= snd (pick cs b n).
Proof.
  induction cs as [|[l0 k0] cs IH]; intros b n l k; [intros []|]. intros [E|Hin]; cbn [pick].
  - injection E as <- <-. destruct (Nat.ltb_spec n k0); [apply pick_ge | apply Nat.le_trans with n; [lia | apply pick_ge]].
  - destruct (n <? k0); eapply IH; exact Hin.
Qed.
Lemma pick_in cs : forall b n, pick cs b n = (b, n) \/ In (pick cs b n) cs.
Proof.
  induction cs as [|[l k] cs IH]; intros b n; cbn [pick]; [left; reflexivity|].
  destruct (Nat.ltb_spec n k) as [Hlt|Hge]; [destruct (IH l k) as [E|Hi]; [right; left; now rewrite E | right; right; exact Hi] | destruct (IH b n) as [E|Hi]; [left; exact E | right; right; exact Hi]].
Qed.
(* the first candidate of maximal length wins *)
Lemma pick_first pre l k post b n :
  (forall l' k', In (l', k') pre -> k' < k) -> (forall l' k', In (l', k') post -> k' <= k) -> n < k -> pick (pre ++ (l, k) :: post) b n = (l, k).
Proof.
  revert b n. induction pre as [|[l0 k0] pre IH]; intros b n Hpre Hpost Hn; cbn [pick app].
  - destruct (Nat.ltb_spec n k) as [_|Hge]; [|lia]. clear Hn. revert Hpost. induction post as [|[l1 k1] post IHp]; intro Hpost; cbn [pick]; [reflexivity|].
    destruct (Nat.ltb_spec k k1); [specialize (Hpost l1 k1 (or_introl eq_refl)); lia|]. apply IHp. intros l' k' H'. apply (Hpost l' k'). right. exact H'.
  - assert (k0 < k) by (apply (Hpre l0 k0); left; reflexivity).
    destruct (n <? k0); apply IH; try lia; try exact Hpost; intros l' k' H'; apply (Hpre l' k'); right; exact H'.
Qed.

(* ---------- the literal rule ---------- *)
Lemma best_lit_spec ls : forall s best,
  (forall tok n, best = Some (tok, n) -> 0 < n) ->
  match best_lit ls s best with
  | Some (tok, n) => (best = Some (tok, n) \/ exists t, In (t, tok) ls /\ starts (list_ascii_of_string t) s = true /\ List.length (list_ascii_of_string t) = n)
                     /\ (forall t tok', In (t, tok') ls -> starts (list_ascii_of_string t) s = true -> List.length (list_ascii_of_string t) <= n)
                     /\ (forall tok' n', best = Some (tok', n') -> n' <= n)
  | None => best = None /\ forall t tok', In (t, tok') ls -> starts (list_ascii_of_string t) s = true -> List.length (list_ascii_of_string t) = 0
  end.
Proof.
  induction ls as [|[t tok] ls IH]; intros s best Hb; cbn [best_lit].
  - destruct best as [[tok n]|]; [repeat split; [left; reflexivity | intros ? ? [] | intros ? ? [= <- <-]; lia] | split; [reflexivity | intros ? ? []]].
  - set (w := list_ascii_of_string t).
    set (cnd := starts w s && match best with Some (_, n) => n <? List.length w | None => 0 <? List.length w end).
    set (best' := if cnd then Some (tok, List.length w) else best).
    assert (forall tok0 n, best' = Some (tok0, n) -> 0 < n) as Hb'.
    { intros tok0 n. unfold best'. destruct cnd eqn:E; [|apply Hb]. intros [= <- <-]. unfold cnd in E. apply andb_prop in E as [_ E].
      destruct best as [[? n0]|]; apply Nat.ltb_lt in E; [|exact E]. specialize (Hb _ _ eq_refl). lia. }
    specialize (IH s best' Hb'). destruct (best_lit ls s best') as [[tok1 n1]|].
    + destruct IH as (H1 & H2 & H3). repeat split.
      * destruct H1 as [E|(t1 & Hin & Hs & Hl)]; [|right; exists t1; repeat split; [right; exact Hin | exact Hs | exact Hl]].
        unfold best' in E. destruct cnd eqn:Ec; [|left; exact E]. injection E as <- <-. unfold cnd in Ec. apply andb_prop in Ec as [Ec _].
        right. exists t. repeat split; [left; reflexivity | exact Ec].
      * intros t' tok' [E|Hin] Hs; [|apply (H2 t' tok' Hin Hs)]. injection E as <- <-. fold w in Hs. fold w.
        unfold best', cnd in H3. rewrite Hs in H3. cbn [andb] in H3. destruct best as [[tok0 n0]|].
        -- destruct (Nat.ltb_spec n0 (List.length w)); [apply (H3 _ _ eq_refl) | specialize (H3 _ _ eq_refl); lia].
        -- destruct (Nat.ltb_spec 0 (List.length w)); [apply (H3 _ _ eq_refl) | lia].
      * intros tok' n' E. subst best. unfold best' in H3. destruct cnd eqn:Ec; [|apply (H3 _ _ eq_refl)].
        unfold cnd in Ec. apply andb_prop in Ec as [_ Ec]. apply Nat.ltb_lt in Ec. specialize (H3 _ _ eq_refl). lia.
    + destruct IH as [E H2]. unfold best' in E. destruct cnd eqn:Ec; [discriminate|]. split; [exact E|]. subst best.
      intros t' tok' [E'|Hin] Hs; [|apply (H2 t' tok' Hin Hs)]. injection E' as <- <-. fold w in Hs. fold w. unfold cnd in Ec. rewrite Hs in Ec. cbn [andb] in Ec.
      destruct (Nat.ltb_spec 0 (List.length w)); [discriminate | lia].
Qed.

(* ---------- maximal munch ---------- *)
Definition lexeme_len (l : lexeme) : nat := match l with Tok _ n => n | Skip _ n => n | Comment => 2 | Eof => 0 end.
Lemma candidates_len literals s l k : In (l, k) (candidates literals s) -> 0 < k -> lexeme_len l = k.
Proof.
  unfold candidates. rewrite !in_app_iff. cbn [In]. intros [H|[H|H]] Hk.
  - repeat (destruct H as [H|H]; [injection H as <- <-; try reflexivity|]); try contradiction.
    unfold m_open in *. destruct (starts open_mark s); [reflexivity | lia].
  - destruct (m_lit literals s) as [[tok n]|]; [destruct H as [H|[]]; injection H as <- <-; reflexivity | destruct H].
  - repeat (destruct H as [H|H]; [injection H as <- <-; reflexivity|]). contradiction.
Qed.
(* the lexeme at the head of a text is at least as long as every literal that starts the text *)
Theorem lex1_maximal_munch literals s t tok :
  In (t, tok) literals -> starts (list_ascii_of_string t) s = true -> List.length (list_ascii_of_string t) <= lexeme_len (lex1 literals s).
Proof.
  intros Hin Hs. destruct s as [|c r]; [destruct (list_ascii_of_string t); [cbn; lia | discriminate]|].
  unfold lex1. set (cs := candidates literals (c :: r)).
  assert (List.length (list_ascii_of_string t) <= snd (pick cs Eof 0)) as Hle.
  { pose proof (best_lit_spec literals (c :: r) None ltac:(discriminate)) as Hb. fold (m_lit literals (c :: r)) in Hb.
    destruct (m_lit literals (c :: r)) as [[tok1 n1]|] eqn:El.
    - destruct Hb as (_ & H2 & _). apply Nat.le_trans with n1; [apply (H2 t tok Hin Hs)|].
      apply (pick_max cs Eof 0 (Tok (KLit tok1) n1) n1). unfold cs, candidates. rewrite El. rewrite !in_app_iff. right; left; left; reflexivity.
    - destruct Hb as [_ H2]. rewrite (H2 t tok Hin Hs). lia. }
  destruct (pick_in cs Eof 0) as [E|Hi]; [rewrite E in *; cbn in *; lia|].
  destruct (pick cs Eof 0) as [l k] eqn:Ep. cbn [fst snd] in *.
  destruct (Nat.eq_dec k 0) as [->|Hk]; [lia|]. rewrite (candidates_len literals (c :: r) l k Hi ltac:(lia)). exact Hle.
Qed.
(* a nonempty text always yields a nonempty lexeme: the scanner makes progress *)
Theorem lex1_progress literals c r : 0 < lexeme_len (lex1 literals (c :: r)).
Proof.
  unfold lex1. set (cs := candidates literals (c :: r)).
  assert (exists l k, In (l, k) cs /\ 0 < k) as (l0 & k0 & Hin0 & Hk0).
  { destruct (is_nl c) eqn:Hn.
    - exists (Tok KLf (m_nl (c :: r))), (m_nl (c :: r)). split; [unfold cs, candidates; rewrite !in_app_iff; left; cbn; tauto | unfold m_nl; cbn; rewrite Hn; lia].
    - exists (Tok KError (m_any (c :: r))), (m_any (c :: r)). split; [unfold cs, candidates; rewrite !in_app_iff; right; right; cbn; tauto | cbn; rewrite Hn; lia]. }
  pose proof (pick_max cs Eof 0 l0 k0 Hin0) as Hm.
  destruct (pick_in cs Eof 0) as [E|Hi]; [rewrite E in Hm; cbn in Hm; lia|].
  destruct (pick cs Eof 0) as [l k] eqn:Ep. cbn [fst snd] in *. rewrite (candidates_len literals (c :: r) l k Hi ltac:(lia)). lia.
Qed.

(* ---------- checks on a literal table (decidable; evaluated on the regenerated table in Properties_C02) ---------- *)
Definition sep_free (t : string) : bool := forallb (fun c => negb (is_blank c || is_nl c || (code c =? 13))) (list_ascii_of_string t).
(* followed by a blank, the literal is scanned as its own token; the backslash and the double quote are excluded: they start the
   continuation-line and the string rule, which can run over the blank *)
Definition own_token (literals : list (string * string)) (tt : string * string) : bool :=
  let w := list_ascii_of_string (fst tt) in
  match w with
  | [c] => if (code c =? 92) || (code c =? 34) then true else
           match lex1 literals (w ++ [" "%char]) with Tok (KLit tok) n => String.eqb tok (snd tt) && (n =? List.length w) | _ => false end
  | _ => match lex1 literals (w ++ [" "%char]) with Tok (KLit tok) n => String.eqb tok (snd tt) && (n =? List.length w) | _ => false end
  end.
Definition table_ok (literals : list (string * string)) : bool :=
  forallb (fun tt => sep_free (fst tt) && negb (String.eqb (fst tt) "") && own_token literals tt) literals.
