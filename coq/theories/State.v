(* L-STATE: the process-global state of the parser (src/parser.y prologue, src/lexer.l) and the order in
   which each public entry point reads and writes it.  A call's result can depend on earlier calls only
   through a global that is read before it has been written in the same call. *)
From Coq Require Import List Bool Arith NArith Lia.
From Utap Require Import Position.
Import ListNotations.

Inductive glob :=
  | GCh            (* static ParserBuilder* ch *)
  | GSyntax        (* static syntax_t syntax *)
  | GSyntaxToken   (* static int syntax_token *)
  | GRootTransId   (* static char rootTransId[] *)
  | GTypes         (* static int types *)
  | GLine | GOffset | GPath     (* tracker.line / offset / path *)
  | GPosition      (* tracker.position: the running counter *)
  | GBuffer        (* flex's current buffer *)
  | GStartCond.    (* flex's start condition (INITIAL / comment) *)
Definition glob_eqb (a b : glob) : bool :=
  match a, b with
  | GCh, GCh | GSyntax, GSyntax | GSyntaxToken, GSyntaxToken | GRootTransId, GRootTransId | GTypes, GTypes | GLine, GLine | GOffset, GOffset
  | GPath, GPath | GPosition, GPosition | GBuffer, GBuffer | GStartCond, GStartCond => true
  | _, _ => false
  end.
Inductive acc := Rd (g : glob) | Wr (g : glob).

(* what the grammar does with `types` and `rootTransId`: checked against the regenerated grammar by the tie
   (ArrayDecl2 is reachable only behind the mid-rule action "types = 0"; the continuation form of a transition
   list only behind the first form, which copies the source name) *)
Definition array_decl : list acc := [Wr GTypes; Rd GTypes; Wr GTypes; Rd GTypes].
Definition trans_list : list acc := [Wr GRootTransId; Rd GRootTransId].
(* the scanner / parser loop: the first token comes from syntax_token (cleared), the rest from flex *)
Definition parse_loop : list acc :=
  [Rd GSyntaxToken; Wr GSyntaxToken; Rd GBuffer; Rd GStartCond; Rd GSyntax; Rd GCh;
   Rd GPosition; Wr GPosition; Rd GOffset; Wr GOffset; Rd GLine; Wr GLine; Rd GPath] ++ array_decl ++ trans_list.
(* tracker.setPath *)
Definition set_path_acc : list acc := [Wr GLine; Wr GOffset; Wr GPath; Rd GPosition; Wr GPosition].
(* static parse_XTA(builder, newxta, part, xpath) and parseProperty(builder, xpath) *)
Definition parse_part : list acc := [Wr GSyntax; Wr GSyntaxToken; Wr GCh] ++ set_path_acc ++ parse_loop ++ [Wr GCh].
Definition parse_property : list acc := [Wr GSyntax; Wr GSyntaxToken; Wr GCh] ++ set_path_acc ++ parse_loop.
Inductive entry := EPartString | EPropertyString | EXtaString | EXmlBuffer (blocks : nat).
Fixpoint repeat_acc (n : nat) (l : list acc) : list acc := match n with O => [] | S m => l ++ repeat_acc m l end.
Definition accesses (e : entry) : list acc :=
  match e with
  | EPartString => Wr GBuffer :: parse_part ++ [Wr GBuffer]
  | EPropertyString => Wr GBuffer :: parse_property ++ [Wr GBuffer]
  | EXtaString => (Wr GBuffer :: parse_part ++ [Wr GBuffer]) ++ (Wr GBuffer :: parse_part ++ [Wr GBuffer])   (* builtin declarations, then the text *)
  | EXmlBuffer n => repeat_acc n (Wr GBuffer :: parse_part ++ [Wr GBuffer])                                  (* one parse per text block *)
  end.

(* globals read before any write of the same call *)
Fixpoint exposed (l : list acc) (written : list glob) : list glob :=
  match l with
  | [] => []
  | Wr g :: r => exposed r (g :: written)
  | Rd g :: r => if existsb (glob_eqb g) written then exposed r written else g :: exposed r written
  end.
Definition only_counter_and_startcond (l : list glob) : bool :=
  forallb (fun g => glob_eqb g GPosition || glob_eqb g GStartCond) l.

Lemma exposed_app_written l1 : forall l2 w, exposed (l1 ++ l2) w = exposed l1 w ++ exposed l2 (fold_left (fun w a => match a with Wr g => g :: w | Rd _ => w end) l1 w).
Proof.
  induction l1 as [|a l1 IH]; intros l2 w; cbn; [reflexivity|]. destruct a; cbn.
  - destruct (existsb (glob_eqb g) w); cbn; rewrite IH; reflexivity.
  - apply IH.
Qed.

(* every entry point exposes nothing but the position counter and the scanner start condition,
   for XML documents with any number of text blocks *)
Theorem part_exposed : only_counter_and_startcond (exposed (accesses EPartString) []) = true.
Proof. vm_compute. reflexivity. Qed.
Theorem property_exposed : only_counter_and_startcond (exposed (accesses EPropertyString) []) = true.
Proof. vm_compute. reflexivity. Qed.
Theorem xta_exposed : only_counter_and_startcond (exposed (accesses EXtaString) []) = true.
Proof. vm_compute. reflexivity. Qed.
Lemma block_exposed_any w : only_counter_and_startcond (exposed (Wr GBuffer :: parse_part ++ [Wr GBuffer]) w) = true.
Proof.
  (* the block's own writes come first for every global except the two; so the result does not depend on w beyond membership tests that only remove elements *)
  cbn [exposed app parse_part set_path_acc parse_loop array_decl trans_list].
  repeat (cbn [exposed existsb glob_eqb orb];
          match goal with |- context [existsb (glob_eqb ?g) ?l] => destruct (existsb (glob_eqb g) l) end); reflexivity.
Qed.
Lemma forallb_app {A} (f : A -> bool) l1 l2 : forallb f (l1 ++ l2) = forallb f l1 && forallb f l2.
Proof. induction l1; cbn; [reflexivity|]. rewrite IHl1. apply andb_assoc. Qed.
Theorem xml_exposed n : only_counter_and_startcond (exposed (accesses (EXmlBuffer n)) []) = true.
Proof.
  cbn [accesses]. generalize (@nil glob) as w. induction n as [|n IH]; intros w; [reflexivity|].
  cbn [repeat_acc]. rewrite exposed_app_written. unfold only_counter_and_startcond. rewrite forallb_app.
  apply andb_true_iff. split; [apply block_exposed_any|apply IH].
Qed.

(* ---- the position counter: results do not depend on its starting value below the wrap ------------------ *)
(* (line, column) of any offset of a block is independent of where the counter stood: Position.linecol_correct
   gives them as functions of the block's lexemes only.  At the wrap, position_index_t::add throws: *)
Definition wrap32 (n : N) : N := N.modulo n (2^32).
Definition add32 (last_pos new_pos : N) : bool := negb (N.ltb new_pos last_pos).        (* false: add() throws std::logic_error *)
Theorem wrap_refuted : exists start len, (start < 2^32)%N /\ add32 start (wrap32 (start + len)) = false.
Proof. exists 4294967000%N, 1000%N. split; vm_compute; reflexivity. Qed.
Theorem below_wrap_ok start len : (start + len < 2^32)%N -> add32 start (wrap32 (start + len)) = true.
Proof.
  intros H. unfold add32, wrap32. rewrite N.mod_small by exact H. apply negb_true_iff. apply N.ltb_ge. lia.
Qed.
