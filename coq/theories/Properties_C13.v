(* C13 — sizes, bounds, initialisers and value arguments must be compile-time computable. *)
From Coq Require Import List Bool Arith.
From Utap Require Import Effects EffectsProofs Compute.
From Utap Require Import DotModel DotProofs RestrictModel.
Import ListNotations.

Section C13.
Variable defs : list fdef.
Hypothesis scoped : forall f d, nth_error defs f = Some d -> cbs f (body d) = true.
Variable computable : var -> bool.
Variable init : var -> option exp.
Hypothesis inits_checked : forall y i, computable y = true -> init y = Some i ->
  cb (length defs) i = true /\ ctc defs computable i = true.

(* an accepted expression depends - directly, through another initialiser, or through a function
   that reads a variable, to any depth - only on computable symbols *)
Theorem C13_ctc_sound e x : cb (length defs) e = true -> ctc defs computable e = true -> DM defs computable init e x -> computable x = true.
Proof. exact (ctc_sound defs scoped computable init inits_checked e x). Qed.
Theorem C13_depends_on_mutable_rejected e x :
  cb (length defs) e = true -> DM defs computable init e x -> computable x = false -> ctc defs computable e = false.
Proof. exact (depends_on_mutable_rejected defs scoped computable init inits_checked e x). Qed.
End C13.

Example C13_example :
  let f := mkfdef 0 [] [] [] (SReturn (Var 3)) in                    (* int f() { return g3; } *)
  let comp := fun v => Nat.eqb v 8 in                                (* only K is a constant *)
  ctc [f] comp (Op [Var 8; Lit]) = true /\ ctc [f] comp (Op [Var 8; Call 0 []]) = false.
Proof. vm_compute. split; reflexivity. Qed.

(* ---- free process parameters and array sizes ----
   The `restricted` sets the builder propagates through instantiations (RestrictModel.restrict_chain: instantiation_end) single out,
   among the free parameters K of a process, exactly those that occur in the size expression once the arguments of every
   instantiation level are substituted: the type checker's rejection of a restricted free parameter rejects a process exactly when
   an array size depends on one of its free parameters, whatever the depth of the chain. *)
Theorem C13_restricted_iff_size_depends : forall lvs b R K, chain_ok lvs b K -> agree R b (next_keys lvs K) ->
  forall q, In q K -> (In q (restrict_chain R lvs) <-> In q (fv (size_after b lvs))).
Proof. intros lvs b R K Hc Ha q Hq. exact (restricted_iff_occurs lvs b R K Hc Ha q Hq). Qed.
Print Assumptions C13_restricted_iff_size_depends.
(* the symbols of an expression after one level: those it kept, and those of the arguments of the parameters it mentioned *)
Theorem C13_symbols_after_a_level : forall lv, level_ok lv -> forall b y,
  In y (fv (bsubst_all lv b)) <-> (In y (fv b) /\ ~ In y (map fst lv)) \/ exists p e, In (p, e) lv /\ In p (fv b) /\ In y (fv e).
Proof. exact fv_level. Qed.
Print Assumptions C13_symbols_after_a_level.
