(* C13 — sizes, bounds, initialisers and value arguments must be compile-time computable. *)
From Coq Require Import List Bool Arith.
From Utap Require Import Effects EffectsProofs Compute.
Import ListNotations.

Section C13.
Variable defs : list fdef.
Hypothesis scoped : forall f d, nth_error defs f = Some d -> cbs f (body d) = true.
Variable computable : var -> bool.
Variable init : var -> option exp.
Hypothesis inits_checked : forall y i, computable y = true -> init y = Some i ->
  cb (length defs) i = true /\ ctc defs computable i = true.

(* an accepted expression depends - directly, through another initialiser, or through a function
   that reads a variable, to any depth - only on computable symbols *)
Theorem C13_ctc_sound e x : cb (length defs) e = true -> ctc defs computable e = true -> DM defs computable init e x -> computable x = true.
Proof. exact (ctc_sound defs scoped computable init inits_checked e x). Qed.
Theorem C13_depends_on_mutable_rejected e x :
  cb (length defs) e = true -> DM defs computable init e x -> computable x = false -> ctc defs computable e = false.
Proof. exact (depends_on_mutable_rejected defs scoped computable init inits_checked e x). Qed.
End C13.

Example C13_example :
  let f := mkfdef 0 [] [] [] (SReturn (Var 3)) in                    (* int f() { return g3; } *)
  let comp := fun v => Nat.eqb v 8 in                                (* only K is a constant *)
  ctc [f] comp (Op [Var 8; Lit]) = true /\ ctc [f] comp (Op [Var 8; Call 0 []]) = false.
Proof. vm_compute. split; reflexivity. Qed.
