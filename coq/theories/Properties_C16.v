(* C16 — a fault in one text block does not disturb the rest of the document.
   Only statements, each closed by a lemma proved elsewhere, with the axioms it rests on. *)
From Coq Require Import List ZArith Bool.
From Utap Require Import DocModel DocProofs DeclModel LRStack LRCert.
From Utap.gen Require Import Gen_LR.
Import ListNotations.

(* Whatever the tokens of a block are and however its parse recovers from errors, no grammar action pops or reads a frame,
   an expression fragment or a type fragment that was on the builder's stacks before the block started: heights are counted
   from the start of the parse, and `underflow` is an action running with fewer entries than it reads. *)
Theorem C16_block_cannot_reach_below_frames : forall c, reach G_frame c -> ~ underflow G_frame c.
Proof. exact (no_underflow G_frame C_frame cert_frame). Qed.
Print Assumptions C16_block_cannot_reach_below_frames.
Theorem C16_block_cannot_reach_below_fragments : forall c, reach G_frag c -> ~ underflow G_frag c.
Proof. exact (no_underflow G_frag C_frag cert_frag). Qed.
Print Assumptions C16_block_cannot_reach_below_fragments.
Theorem C16_block_cannot_reach_below_types : forall c, reach G_type c -> ~ underflow G_type c.
Proof. exact (no_underflow G_type C_type cert_type). Qed.
Print Assumptions C16_block_cannot_reach_below_types.

(* An edge that cannot be created (unknown end point) is isolated: its select / guard / synchronisation / update / probability
   callbacks leave the whole builder state as it was. *)
Theorem C16_failed_edge_isolated : forall D t s d ctl ls,
  (is_loc t s || is_bp t s) && (is_loc t d || is_bp t d) = false -> forallb is_label ls = true ->
  build (EdgeBegin s d ctl :: ls ++ [EdgeEnd]) (mkb D (Some t) PNone) = mkb D (Some t) PNone.
Proof. exact failed_edge_isolated. Qed.
Print Assumptions C16_failed_edge_isolated.
(* Labels reach only the edge that is open: with no edge open they change nothing. *)
Theorem C16_labels_need_an_edge : forall ls b, forallb is_label ls = true -> b_edge b = PNone -> build ls b = b.
Proof. exact labels_without_edge. Qed.
Print Assumptions C16_labels_need_an_edge.

(* Declaration blocks: what was declared before a faulted declaration stays, unchanged and in order. *)
Theorem C16_declaration_prefix_kept : forall os s, extends s (drun os s).
Proof. exact prefix_kept. Qed.
Print Assumptions C16_declaration_prefix_kept.

(* The upper half — a block leaves no extra frame behind — is false on the pinned tree: the binder frame pushed by the mid-rule
   action of forall / exists / sum is not popped when the body fails to parse (known finding C16-frame-leak). *)
