From Coq Require Import List Bool Arith Lia.
From Utap Require Import DocModel.
Import ListNotations.

Lemma existsb_map {A B} (g : B -> bool) (f : A -> B) l : existsb g (map f l) = existsb (fun x => g (f x)) l.
Proof. induction l; cbn; [reflexivity|]. now rewrite IHl. Qed.
Lemma build_app a b s : build (a ++ b) s = build b (build a s).
Proof. unfold build. apply fold_left_app. Qed.
Lemma upd_nth_last {A} (f : A -> A) l x : upd_nth (length l) f (l ++ [x]) = l ++ [f x].
Proof. induction l; cbn; [reflexivity|]. now rewrite IHl. Qed.

(* ---- locations ---------------------------------------------------------------------------------------- *)
Definition lname_in (n : nm) (ls : list dloc) : bool := existsb (fun l => nm_eqb (dl_name l) n) ls.
Lemma map_flag_notin n f ls : lname_in n ls = false -> map (fun l => if nm_eqb (dl_name l) n then f l else l) ls = ls.
Proof.
  induction ls as [|l ls IH]; cbn; intros H; [reflexivity|]. apply orb_false_iff in H as [H1 H2]. rewrite H1, IH; auto.
Qed.
Lemma existsb_app_false {A} (g : A -> bool) l1 l2 : existsb g (l1 ++ l2) = existsb g l1 || existsb g l2.
Proof. apply existsb_app. Qed.

Definition loc_ok (l : xloc) : bool := negb (xl_urgent l && xl_committed l).       (* not urgent and committed at once *)
Lemma build_loc D t p l :
  lname_in (loc_name l) (dt_locs t) = false -> loc_ok l = true ->
  build (read_loc l) (mkb D (Some t) p) = mkb D (Some (mkdtempl (dt_name t) (dt_locs t ++ [doc_loc l]) (dt_bps t) (dt_init t) (dt_edges t))) p.
Proof.
  intros Hn Hok. unfold read_loc, doc_loc, loc_ok in *. set (n := loc_name l) in *.
  assert (Hself : nm_eqb n n = true) by (apply nm_eqb_eq; reflexivity).
  destruct (xl_committed l) eqn:C; destruct (xl_urgent l) eqn:U; cbn in Hok; try discriminate; cbn [app build fold_left step on_cur b_cur b_done b_edge];
    unfold is_loc, set_flag; cbn [dt_locs dt_name dt_bps dt_init dt_edges];
    rewrite ?existsb_app; cbn [existsb dl_name dl_urgent dl_committed]; rewrite ?Hself; cbn [andb orb negb];
    rewrite ?orb_true_r; cbn [andb orb negb].
  - (* committed *)
    assert (E : existsb (fun l0 => nm_eqb (dl_name l0) n && dl_urgent l0) (dt_locs t) = false).
    { clear -Hn. unfold lname_in in Hn. induction (dt_locs t) as [|x r IH]; cbn in *; [reflexivity|]. apply orb_false_iff in Hn as [H1 H2]. rewrite H1, IH; auto. }
    rewrite E. cbn [orb negb]. rewrite map_app, (map_flag_notin n _ _ Hn). cbn [map dl_name]. rewrite Hself. reflexivity.
  - (* urgent *)
    assert (E : existsb (fun l0 => nm_eqb (dl_name l0) n && dl_committed l0) (dt_locs t) = false).
    { clear -Hn. unfold lname_in in Hn. induction (dt_locs t) as [|x r IH]; cbn in *; [reflexivity|]. apply orb_false_iff in Hn as [H1 H2]. rewrite H1, IH; auto. }
    rewrite E. cbn [orb negb]. rewrite map_app, (map_flag_notin n _ _ Hn). cbn [map dl_name]. rewrite Hself. reflexivity.
  - reflexivity.
Qed.

Fixpoint nodup_names (seen : list nm) (ls : list xloc) : bool :=
  match ls with [] => true | l :: r => negb (existsb (nm_eqb (loc_name l)) seen) && loc_ok l && nodup_names (loc_name l :: seen) r end.
Lemma lname_in_map n ls : lname_in n (map doc_loc ls) = existsb (fun l => nm_eqb (loc_name l) n) ls.
Proof. unfold lname_in. rewrite existsb_map. reflexivity. Qed.
Lemma build_locs D p : forall ls t,
  nodup_names (map dl_name (dt_locs t)) ls = true ->
  build (flat_map read_loc ls) (mkb D (Some t) p) = mkb D (Some (mkdtempl (dt_name t) (dt_locs t ++ map doc_loc ls) (dt_bps t) (dt_init t) (dt_edges t))) p.
Proof.
  induction ls as [|l ls IH]; intros t H; cbn [flat_map map].
  - rewrite app_nil_r. destruct t; reflexivity.
  - cbn [nodup_names] in H. apply andb_true_iff in H as [H H3]. apply andb_true_iff in H as [H1 H2].
    rewrite build_app, build_loc; auto.
    + rewrite IH; cbn [dt_locs dt_name dt_bps dt_init dt_edges].
      * rewrite <- app_assoc. reflexivity.
      * rewrite map_app. cbn [map doc_loc dl_name].
        (* the seen list is a permutation of what nodup_names expects: membership is all that matters *)
        revert H3. generalize (loc_name l) as n0. intros n0.
        assert (G : forall seen1 seen2 ls0, (forall x, existsb (nm_eqb x) seen1 = existsb (nm_eqb x) seen2) -> nodup_names seen1 ls0 = nodup_names seen2 ls0).
        { intros s1 s2 ls0. revert s1 s2. induction ls0 as [|y r IHr]; intros s1 s2 E; cbn; [reflexivity|]. rewrite (E (loc_name y)). f_equal. apply IHr. intros x. cbn. rewrite (E x). reflexivity. }
        intros H3. rewrite <- H3. apply G. intros x. rewrite existsb_app. cbn. rewrite orb_false_r. apply orb_comm.
    + apply negb_true_iff in H1. unfold lname_in. rewrite <- H1. clear.
      induction (dt_locs t) as [|x r IH]; cbn; [reflexivity|]. rewrite IH. f_equal.
      destruct (nm_eqb (dl_name x) (loc_name l)) eqn:E; destruct (nm_eqb (loc_name l) (dl_name x)) eqn:F; auto.
      * apply nm_eqb_eq in E. rewrite E in F. rewrite (proj2 (nm_eqb_eq _ _) eq_refl) in F. discriminate.
      * apply nm_eqb_eq in F. rewrite F in E. rewrite (proj2 (nm_eqb_eq _ _) eq_refl) in E. discriminate.
Qed.

(* ---- branchpoints and init ------------------------------------------------------------------------------ *)
Lemma build_bps D p : forall bs t,
  build (map (fun b => ProcBranchpoint (Anon b)) bs) (mkb D (Some t) p) = mkb D (Some (mkdtempl (dt_name t) (dt_locs t) (dt_bps t ++ map Anon bs) (dt_init t) (dt_edges t))) p.
Proof.
  induction bs as [|b bs IH]; intros t; cbn [map].
  - rewrite app_nil_r. destruct t; reflexivity.
  - change (build (?c :: ?r) ?s) with (build r (step s c)). cbn [step on_cur b_cur b_done b_edge]. rewrite IH. cbn. rewrite <- app_assoc. reflexivity.
Qed.

(* ---- edges ------------------------------------------------------------------------------------------------ *)
Definition apply_label (e : dedge) (kl : lkind * lab) : dedge :=
  match fst kl with
  | KSelect => mkdedge (de_src e) (de_dst e) (de_control e) (de_selects e ++ [snd kl]) (de_guard e) (de_sync e) (de_update e) (de_prob e)
  | KGuard => mkdedge (de_src e) (de_dst e) (de_control e) (de_selects e) (Some (snd kl)) (de_sync e) (de_update e) (de_prob e)
  | KSync => mkdedge (de_src e) (de_dst e) (de_control e) (de_selects e) (de_guard e) (Some (snd kl)) (de_update e) (de_prob e)
  | KUpdate => mkdedge (de_src e) (de_dst e) (de_control e) (de_selects e) (de_guard e) (de_sync e) (Some (snd kl)) (de_prob e)
  | KProb => mkdedge (de_src e) (de_dst e) (de_control e) (de_selects e) (de_guard e) (de_sync e) (de_update e) (Some (snd kl))
  | KOther => e
  end.
Lemma build_labels D old : forall labs t e,
  dt_edges t = old ++ [e] ->
  build (flat_map read_label labs) (mkb D (Some t) (PCur (length old))) =
  mkb D (Some (with_edges t (old ++ [fold_left apply_label labs e]))) (PCur (length old)).
Proof.
  induction labs as [|kl labs IH]; intros t e He; cbn [flat_map fold_left].
  - cbn. unfold with_edges. rewrite <- He. destruct t; reflexivity.
  - rewrite build_app.
    assert (S1 : build (read_label kl) (mkb D (Some t) (PCur (length old))) = mkb D (Some (with_edges t (old ++ [apply_label e kl]))) (PCur (length old))).
    { destruct kl as [k l]. unfold read_label, apply_label. cbn [fst snd].
      destruct k; cbn [build fold_left step on_cur_edge b_edge b_cur b_done]; rewrite ?He, ?upd_nth_last; try reflexivity.
      unfold with_edges. rewrite <- He. destruct t; reflexivity. }
    rewrite S1. rewrite (IH (with_edges t (old ++ [apply_label e kl])) (apply_label e kl)); [|reflexivity]. unfold with_edges. cbn. reflexivity.
Qed.
(* folding the labels gives: selects in order, and for every other kind the last label of that kind *)
Lemma fold_labels labs : forall e,
  fold_left apply_label labs e =
  mkdedge (de_src e) (de_dst e) (de_control e) (de_selects e ++ selects_of labs)
          (match last_of KGuard labs with Some x => Some x | None => de_guard e end) (match last_of KSync labs with Some x => Some x | None => de_sync e end)
          (match last_of KUpdate labs with Some x => Some x | None => de_update e end) (match last_of KProb labs with Some x => Some x | None => de_prob e end).
Proof.
  unfold selects_of. induction labs as [|kl labs IH]; intros e; cbn [fold_left flat_map last_of].
  - rewrite app_nil_r. destruct e; reflexivity.
  - rewrite IH. destruct kl as [k l]. unfold apply_label. cbn [fst snd de_src de_dst de_control de_selects de_guard de_sync de_update de_prob].
    destruct k; cbn; rewrite <- ?app_assoc; cbn;
      destruct (last_of KGuard labs), (last_of KSync labs), (last_of KUpdate labs), (last_of KProb labs); reflexivity.
Qed.
Definition mk_edge (s d : nm) (ctl : bool) (labs : list (lkind * lab)) : dedge :=
  mkdedge s d ctl (selects_of labs) (last_of KGuard labs) (last_of KSync labs) (last_of KUpdate labs) (last_of KProb labs).
Lemma build_edge D t p s d ctl labs :
  (is_loc t s || is_bp t s) && (is_loc t d || is_bp t d) = true ->
  build (EdgeBegin s d ctl :: flat_map read_label labs ++ [EdgeEnd]) (mkb D (Some t) p) =
  mkb D (Some (with_edges t (dt_edges t ++ [mk_edge s d ctl labs]))) PNone.
Proof.
  intros H. change (build (?c :: ?r) ?st) with (build r (step st c)). cbn [step b_cur b_done b_edge]. rewrite H.
  rewrite build_app. set (t1 := with_edges t (dt_edges t ++ [mkdedge s d ctl [] None None None None])).
  rewrite (build_labels D (dt_edges t) labs t1 (mkdedge s d ctl [] None None None None) eq_refl).
  cbn [build fold_left step]. rewrite fold_labels. unfold mk_edge, with_edges, t1. cbn.
  repeat match goal with |- context [match ?x with Some _ => _ | None => _ end] => destruct x end; reflexivity.
Qed.

(* every endpoint is a location or branchpoint of the template *)
Definition names_of (t : dtempl) : list nm := map dl_name (dt_locs t) ++ dt_bps t.
Lemma is_named t n : existsb (nm_eqb n) (names_of t) = is_loc t n || is_bp t n.
Proof.
  unfold names_of, is_loc, is_bp. rewrite existsb_app, existsb_map. f_equal.
  induction (dt_locs t) as [|x r IH]; cbn; [reflexivity|]. rewrite IH. f_equal.
  destruct (nm_eqb n (dl_name x)) eqn:E; destruct (nm_eqb (dl_name x) n) eqn:F; auto.
  - apply nm_eqb_eq in E. rewrite <- E in F. rewrite (proj2 (nm_eqb_eq _ _) eq_refl) in F. discriminate.
  - apply nm_eqb_eq in F. rewrite F in E. rewrite (proj2 (nm_eqb_eq _ _) eq_refl) in E. discriminate.
Qed.
Definition edge_ok (m : names) (tn : list nm) (e : xedge) : bool :=
  match lookup m (xe_src e), lookup m (xe_dst e) with Some s, Some d => existsb (nm_eqb s) tn && existsb (nm_eqb d) tn | _, _ => false end.
Lemma build_edges D m : forall es t p cs,
  forallb (edge_ok m (names_of t)) es = true -> read_edges m es = Some cs ->
  exists p', build cs (mkb D (Some t) p) = mkb D (Some (with_edges t (dt_edges t ++ flat_map (fun e => match doc_edge m e with Some x => [x] | None => [] end) es))) p'.
Proof.
  induction es as [|e es IH]; intros t p cs Hok Hr; cbn [read_edges] in Hr.
  - inversion Hr; subst. exists p. cbn. rewrite app_nil_r. unfold with_edges. destruct t; reflexivity.
  - cbn [forallb] in Hok. apply andb_true_iff in Hok as [Ho Hok].
    destruct (read_edge m e) as [a|] eqn:Ea; [|discriminate]. destruct (read_edges m es) as [b|] eqn:Eb; [|discriminate]. inversion Hr; subst cs.
    unfold read_edge in Ea. unfold edge_ok in Ho. unfold doc_edge. cbn [flat_map].
    destruct (lookup m (xe_src e)) as [s|]; [|discriminate]. destruct (lookup m (xe_dst e)) as [d|]; [|discriminate]. inversion Ea; subst a.
    rewrite !is_named in Ho. rewrite build_app, (build_edge D t p s d (xe_control e) (xe_labels e) Ho).
    set (t1 := with_edges t (dt_edges t ++ [mk_edge s d (xe_control e) (xe_labels e)])).
    destruct (IH t1 PNone b) as [p' Hp']; auto.
    exists p'. rewrite Hp'. unfold t1, with_edges, mk_edge. cbn. rewrite <- app_assoc. reflexivity.
Qed.

(* ---- a whole template -------------------------------------------------------------------------------------------- *)
Definition doc_templ (m : names) (t : xtempl) : dtempl :=
  mkdtempl (xt_name t) (map doc_loc (xt_locs t)) (map Anon (xt_bps t))
           (match xt_init t with Some i => lookup m i | None => None end)
           (flat_map (fun e => match doc_edge m e with Some x => [x] | None => [] end) (xt_edges t)).
(* well-formedness of the element structure, relative to the names map after the template's own registrations:
   location names distinct, none both urgent and committed, init and every edge end point resolve to a location /
   (for edges) branchpoint of this template *)
Definition wf_templ (m : names) (t : xtempl) : bool :=
  nodup_names [] (xt_locs t) &&
  (match xt_init t with Some i => match lookup m i with Some n => existsb (fun l => nm_eqb (loc_name l) n) (xt_locs t) | None => false end | None => true end) &&
  forallb (edge_ok m (map loc_name (xt_locs t) ++ map Anon (xt_bps t))) (xt_edges t).

Theorem reader_builder_templ D p m0 t cs m2 :
  read_templ m0 t = (Some cs, m2) -> wf_templ m2 t = true ->
  exists p', build cs (mkb D None p) = mkb (D ++ [doc_templ m2 t]) None p'.
Proof.
  unfold read_templ, wf_templ. intros R W.
  set (m := fold_left (fun m b => reg m b (Anon b)) (xt_bps t) (fold_left (fun m l => reg m (xl_id l) (loc_name l)) (xt_locs t) m0)) in *.
  assert (m2 = m) by (inversion R; reflexivity). subst m2.
  apply andb_true_iff in W as [W We]. apply andb_true_iff in W as [Wn Wi].
  destruct (match xt_init t with Some i => match lookup m i with Some n => Some [ProcInit n] | None => None end | None => Some [] end) as [ic|] eqn:Ei; [|inversion R].
  destruct (read_edges m (xt_edges t)) as [ec|] eqn:Ee; [|inversion R]. inversion R as [Rc]. clear R.
  change (build (?c :: ?r) ?st) with (build r (step st c)). cbn [step b_cur b_done b_edge].
  assert (Ep : match p with PNone => PNone | PCur ei => PCur ei | PDone ti ei => PDone ti ei end = p) by (destruct p; reflexivity). rewrite Ep.
  rewrite build_app, (build_locs D p (xt_locs t) (mkdtempl (xt_name t) [] [] None [])) by exact Wn. cbn [dt_name dt_locs dt_bps dt_init dt_edges app].
  rewrite build_app, build_bps. cbn [dt_name dt_locs dt_bps dt_init dt_edges app].
  rewrite build_app.
  set (t1 := mkdtempl (xt_name t) (map doc_loc (xt_locs t)) (map Anon (xt_bps t)) None []).
  assert (Hi : build ic (mkb D (Some t1) p) = mkb D (Some (mkdtempl (xt_name t) (map doc_loc (xt_locs t)) (map Anon (xt_bps t)) (match xt_init t with Some i => lookup m i | None => None end) [])) p).
  { destruct (xt_init t) as [i|]; [|inversion Ei; reflexivity].
    destruct (lookup m i) as [n|] eqn:L; [|discriminate]. inversion Ei; subst ic. cbn [build fold_left step on_cur b_cur b_done b_edge].
    unfold is_loc, t1. cbn [dt_locs]. rewrite existsb_map. cbn [doc_loc dl_name]. rewrite Wi. reflexivity. }
  rewrite Hi. rewrite build_app.
  set (t2 := mkdtempl (xt_name t) (map doc_loc (xt_locs t)) (map Anon (xt_bps t)) (match xt_init t with Some i => lookup m i | None => None end) []).
  destruct (build_edges D m (xt_edges t) t2 p ec) as [p' Hp'].
  { unfold names_of, t2. cbn [dt_locs dt_bps]. rewrite map_map. cbn [doc_loc dl_name]. exact We. }
  { exact Ee. }
  rewrite Hp'. cbn [build fold_left step b_cur b_done b_edge]. unfold doc_templ, with_edges, t2. cbn [dt_name dt_locs dt_bps dt_init dt_edges app].
  eexists. reflexivity.
Qed.

(* ---- structural invariants of every reachable builder state (C08), for arbitrary callback sequences ----------- *)
Definition edge_closed (t : dtempl) : Prop := forall e, In e (dt_edges t) -> (is_loc t (de_src e) || is_bp t (de_src e)) && (is_loc t (de_dst e) || is_bp t (de_dst e)) = true.
Definition Inv (b : bstate) : Prop := Forall edge_closed (b_done b) /\ match b_cur b with Some t => edge_closed t | None => True end.
Lemma is_loc_mono t t' n : (forall l, In l (dt_locs t) -> exists l', In l' (dt_locs t') /\ dl_name l' = dl_name l) -> is_loc t n = true -> is_loc t' n = true.
Proof.
  unfold is_loc. intros H E. apply existsb_exists in E as (l & Hl & El). destruct (H l Hl) as (l' & Hl' & En).
  apply existsb_exists. exists l'. split; auto. rewrite En. exact El.
Qed.
Lemma in_upd_nth {A} (f : A -> A) : forall l n x, In x (upd_nth n f l) -> exists y, In y l /\ (x = y \/ x = f y).
Proof.
  induction l as [|a l IH]; intros n x H; [destruct n; cbn in H; destruct H|]. destruct n; cbn in H.
  - destruct H as [<-|H]; [exists a; cbn; auto|exists x; cbn; auto].
  - destruct H as [<-|H]; [exists a; cbn; auto|]. destruct (IH n x H) as (y & Hy & E). exists y. cbn. auto.
Qed.
(* relabelling an edge (select / guard / sync / update / probability) keeps its end points *)
Definition same_ends (f : dedge -> dedge) : Prop := forall e, de_src (f e) = de_src e /\ de_dst (f e) = de_dst e.
Lemma closed_relabel t n f : same_ends f -> edge_closed t -> edge_closed (with_edges t (upd_nth n f (dt_edges t))).
Proof.
  intros Sf C e He. unfold with_edges in *. cbn [dt_edges] in He. destruct (in_upd_nth f _ _ _ He) as (y & Hy & E0). destruct E0 as [E0|E0]; rewrite E0.
  - exact (C y Hy).
  - destruct (Sf y) as [-> ->]. exact (C y Hy).
Qed.
Lemma Forall_upd_nth {A} (P : A -> Prop) (f : A -> A) l n : Forall P l -> (forall x, P x -> P (f x)) -> Forall P (upd_nth n f l).
Proof.
  intros H Hf. revert n. induction H as [|a l Ha Hl IH]; intros n; [destruct n; cbn; constructor|]. destruct n; cbn; constructor; auto.
Qed.
Lemma inv_on_cur_edge b f : same_ends f -> Inv b -> Inv (on_cur_edge b f).
Proof.
  intros Sf [Hd Hc]. unfold on_cur_edge. destruct (b_edge b) as [|ei|ti ei]; [split; assumption| |].
  - destruct (b_cur b) as [t|] eqn:E; [|split; [assumption|rewrite E; exact I]]. split; cbn; [assumption|]. apply closed_relabel; assumption.
  - split; cbn; [|exact Hc]. apply Forall_upd_nth; [assumption|]. intros t Ht. apply closed_relabel; assumption.
Qed.
(* adding locations / branchpoints / flags keeps every existing end point resolvable *)
Lemma closed_grow t t' : dt_edges t' = dt_edges t -> (forall n, is_loc t n = true -> is_loc t' n = true) -> (forall n, is_bp t n = true -> is_bp t' n = true) ->
  edge_closed t -> edge_closed t'.
Proof.
  intros Ee Hl Hb C e He. rewrite Ee in He. specialize (C e He). apply andb_true_iff in C as [C1 C2]. apply andb_true_iff. split.
  - apply orb_true_iff in C1 as [C1|C1]; apply orb_true_iff; [left; auto|right; auto].
  - apply orb_true_iff in C2 as [C2|C2]; apply orb_true_iff; [left; auto|right; auto].
Qed.
Lemma is_loc_set_flag n f t m : (forall l, dl_name (f l) = dl_name l) -> is_loc (set_flag n f t) m = is_loc t m.
Proof.
  intros Hf. unfold is_loc, set_flag. cbn [dt_locs]. rewrite existsb_map. induction (dt_locs t) as [|x r IH]; cbn; [reflexivity|]. rewrite IH.
  destruct (nm_eqb (dl_name x) n); [rewrite Hf|]; reflexivity.
Qed.
Theorem inv_step b c : Inv b -> Inv (step b c).
Proof.
  intros [Hd Hc]. destruct c; cbn [step].
  - (* ProcBegin *) split; cbn.
    + destruct (b_cur b) as [t|]; [apply Forall_app; split; [assumption|constructor; [exact Hc|constructor]]|assumption].
    + intros e He. destruct He.
  - (* ProcEnd *) destruct (b_cur b) as [t|] eqn:E; [|split; [assumption|rewrite E; exact I]]. split; cbn; [|exact I].
    apply Forall_app. split; [assumption|constructor; [exact Hc|constructor]].
  - (* location *) unfold on_cur. destruct (b_cur b) as [t|] eqn:E; [|split; [assumption|rewrite E; exact I]]. split; cbn; [assumption|].
    apply (closed_grow t); cbn; auto. intros n0 H. unfold is_loc in *. cbn [dt_locs]. rewrite existsb_app, H. reflexivity.
  - unfold on_cur. destruct (b_cur b) as [t|] eqn:E; [|split; [assumption|rewrite E; exact I]]. split; [exact Hd|]. cbn [b_cur].
    match goal with |- edge_closed (if ?c then _ else _) => destruct c end; [|exact Hc].
    apply (closed_grow t); auto. intros n0 H. rewrite is_loc_set_flag; auto.
  - unfold on_cur. destruct (b_cur b) as [t|] eqn:E; [|split; [assumption|rewrite E; exact I]]. split; [exact Hd|]. cbn [b_cur].
    match goal with |- edge_closed (if ?c then _ else _) => destruct c end; [|exact Hc].
    apply (closed_grow t); auto. intros n0 H. rewrite is_loc_set_flag; auto.
  - (* branchpoint *) unfold on_cur. destruct (b_cur b) as [t|] eqn:E; [|split; [assumption|rewrite E; exact I]]. split; cbn; [assumption|].
    apply (closed_grow t); cbn; auto. intros n0 H. unfold is_bp in *. cbn [dt_bps]. rewrite existsb_app, H. reflexivity.
  - (* init *) unfold on_cur. destruct (b_cur b) as [t|] eqn:E; [|split; [assumption|rewrite E; exact I]]. split; [exact Hd|]. cbn [b_cur].
    destruct (is_loc t n); [|exact Hc]. apply (closed_grow t); auto.
  - (* edge begin *) destruct (b_cur b) as [t|] eqn:E; [|split; [assumption|rewrite E; exact I]].
    destruct ((is_loc t src || is_bp t src) && (is_loc t dst || is_bp t dst)) eqn:Q; [|split; [assumption|rewrite E; exact Hc]].
    split; cbn; [assumption|]. intros e He. unfold with_edges in He. cbn [dt_edges] in He. apply in_app_iff in He as [He|[<-|[]]].
    + exact (Hc e He).
    + exact Q.
  - split; assumption.
  - apply inv_on_cur_edge; [intros e; split; reflexivity|split; assumption].
  - apply inv_on_cur_edge; [intros e; split; reflexivity|split; assumption].
  - apply inv_on_cur_edge; [intros e; split; reflexivity|split; assumption].
  - apply inv_on_cur_edge; [intros e; split; reflexivity|split; assumption].
  - apply inv_on_cur_edge; [intros e; split; reflexivity|split; assumption].
Qed.
Theorem inv_all cs : Inv (build cs b0).
Proof.
  unfold build. assert (H : Inv b0) by (split; cbn; [constructor|exact I]). revert H. generalize b0.
  induction cs as [|c cs IH]; intros b H; cbn; [exact H|]. apply IH. apply inv_step. exact H.
Qed.

(* ---- an edge that cannot be created is isolated: its labels change nothing (C05 / C16; the pinned tree let them land on
        the previous edge, repaired by resetting currentEdge in proc_edge_end) ------------------------------------ *)
Definition is_label (c : cb) : bool := match c with Select _ | Guard _ | Sync _ | Update _ | Prob _ => true | _ => false end.
Lemma labels_without_edge : forall ls b, forallb is_label ls = true -> b_edge b = PNone -> build ls b = b.
Proof.
  induction ls as [|c ls IH]; intros b H E; [reflexivity|]. cbn [forallb] in H. apply andb_true_iff in H as [Hc H].
  change (build (c :: ls) b) with (build ls (step b c)).
  assert (S : step b c = b) by (destruct c; try discriminate; cbn [step]; unfold on_cur_edge; now rewrite E).
  rewrite S. now apply IH.
Qed.
Theorem failed_edge_isolated D t s d ctl ls :
  (is_loc t s || is_bp t s) && (is_loc t d || is_bp t d) = false -> forallb is_label ls = true ->
  build (EdgeBegin s d ctl :: ls ++ [EdgeEnd]) (mkb D (Some t) PNone) = mkb D (Some t) PNone.
Proof.
  intros H L. change (build (?c :: ?r) ?st) with (build r (step st c)). cbn [step b_cur]. rewrite H.
  rewrite build_app, (labels_without_edge ls) by (auto; reflexivity). reflexivity.
Qed.
(* after every completed edge no edge is current, so the hypothesis above is what every later edge starts from *)
Lemma edge_end_resets b : b_edge (step b EdgeEnd) = PNone.
Proof. reflexivity. Qed.
Example failed_edge_example :
  let cs := [ProcBegin 0; ProcLocation (Named 1) None None; ProcLocation (Named 2) None None;
             EdgeBegin (Named 1) (Named 2) true; Guard 10; EdgeEnd;
             EdgeBegin (Named 9) (Named 2) true; Guard 77; EdgeEnd; ProcEnd] in       (* the second edge's source does not exist *)
  map (fun t => map de_guard (dt_edges t)) (templates (build cs b0)) = [[Some 10]].
Proof. vm_compute. reflexivity. Qed.

(* ---- the initial location, whenever one is recorded, is a location of the same template (C08) ---- *)
Definition init_ok (t : dtempl) : Prop := match dt_init t with Some n => is_loc t n = true | None => True end.
Definition InitInv (b : bstate) : Prop := Forall init_ok (b_done b) /\ match b_cur b with Some t => init_ok t | None => True end.
Lemma init_relabel t es : init_ok t -> init_ok (with_edges t es).
Proof. unfold init_ok, with_edges, is_loc. cbn. auto. Qed.
Lemma init_on_cur_edge b f : InitInv b -> InitInv (on_cur_edge b f).
Proof.
  intros [Hd Hc]. unfold on_cur_edge. destruct (b_edge b) as [|ei|ti ei]; [split; assumption| |].
  - destruct (b_cur b) as [t|] eqn:E; [|split; [assumption|rewrite E; exact I]]. split; cbn; [assumption|]. now apply init_relabel.
  - split; cbn; [|exact Hc]. apply Forall_upd_nth; [assumption|]. intros t Ht. now apply init_relabel.
Qed.
Lemma init_grow t t' : dt_init t' = dt_init t -> (forall n, is_loc t n = true -> is_loc t' n = true) -> init_ok t -> init_ok t'.
Proof. unfold init_ok. intros -> H. destruct (dt_init t); auto. Qed.
Theorem init_step b c : InitInv b -> InitInv (step b c).
Proof.
  intros [Hd Hc]. destruct c; cbn [step].
  - split; cbn; [|exact I].
    destruct (b_cur b) as [t|]; [apply Forall_app; split; [assumption|constructor; [exact Hc|constructor]]|assumption].
  - destruct (b_cur b) as [t|] eqn:E; [|split; [assumption|rewrite E; exact I]]. split; cbn; [|exact I].
    apply Forall_app. split; [assumption|constructor; [exact Hc|constructor]].
  - unfold on_cur. destruct (b_cur b) as [t|] eqn:E; [|split; [assumption|rewrite E; exact I]]. split; cbn; [assumption|].
    apply (init_grow t); cbn; auto. intros n0 H. unfold is_loc in *. cbn [dt_locs]. rewrite existsb_app, H. reflexivity.
  - unfold on_cur. destruct (b_cur b) as [t|] eqn:E; [|split; [assumption|rewrite E; exact I]]. split; [exact Hd|]. cbn [b_cur].
    match goal with |- init_ok (if ?c then _ else _) => destruct c end; [|exact Hc].
    apply (init_grow t); auto. intros n0 H. rewrite is_loc_set_flag; auto.
  - unfold on_cur. destruct (b_cur b) as [t|] eqn:E; [|split; [assumption|rewrite E; exact I]]. split; [exact Hd|]. cbn [b_cur].
    match goal with |- init_ok (if ?c then _ else _) => destruct c end; [|exact Hc].
    apply (init_grow t); auto. intros n0 H. rewrite is_loc_set_flag; auto.
  - unfold on_cur. destruct (b_cur b) as [t|] eqn:E; [|split; [assumption|rewrite E; exact I]]. split; cbn; [assumption|].
    apply (init_grow t); cbn; auto.
  - unfold on_cur. destruct (b_cur b) as [t|] eqn:E; [|split; [assumption|rewrite E; exact I]]. split; [exact Hd|]. cbn [b_cur].
    destruct (is_loc t n) eqn:L; [|exact Hc]. unfold init_ok, is_loc in *. cbn. exact L.
  - destruct (b_cur b) as [t|] eqn:E; [|split; [assumption|rewrite E; exact I]].
    destruct ((is_loc t src || is_bp t src) && (is_loc t dst || is_bp t dst)) eqn:Q; [|split; [assumption|rewrite E; exact Hc]].
    split; cbn; [assumption|]. now apply init_relabel.
  - split; assumption.
  - apply init_on_cur_edge; split; assumption.
  - apply init_on_cur_edge; split; assumption.
  - apply init_on_cur_edge; split; assumption.
  - apply init_on_cur_edge; split; assumption.
  - apply init_on_cur_edge; split; assumption.
Qed.
Theorem init_all cs : InitInv (build cs b0).
Proof.
  unfold build. assert (H : InitInv b0) by (split; cbn; [constructor|exact I]). revert H. generalize b0.
  induction cs as [|c cs IH]; intros b H; cbn; [exact H|]. apply IH. apply init_step. exact H.
Qed.

(* The kind test of proc_location_init is what the invariant rests on: a builder that, like proc_edge_begin does for edge ends, lets an init name "a location
   or a branchpoint" records an initial location that is none of the template's locations. *)
Definition step_lax (b : bstate) (c : cb) : bstate :=
  match c with
  | ProcInit n => on_cur b (fun t => if is_loc t n || is_bp t n then mkdtempl (dt_name t) (dt_locs t) (dt_bps t) (Some n) (dt_edges t) else t)
  | _ => step b c
  end.
Example init_of_a_branchpoint_breaks_the_invariant :
  let cs := [ProcBegin 0; ProcLocation (Named 1) None None; ProcBranchpoint (Anon 2); ProcInit (Anon 2); ProcEnd] in
  ~ InitInv (fold_left step_lax cs b0) /\ InitInv (build cs b0) /\ map dt_init (templates (build cs b0)) = [None].
Proof.
  cbn. split; [|split; [split; [repeat constructor|exact I]|reflexivity]].
  intros [H _]. inversion H as [|? ? H1 _]; subst. unfold init_ok in H1. cbn in H1. discriminate H1.
Qed.

