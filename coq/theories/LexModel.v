(* C02 / C09 / C01: the scanner of src/lexer.l in its INITIAL start condition, at character level.

   flex takes, at every position, the rule with the longest match and, among rules matching the same length, the one written first.
   The rules of lexer.l outside <comment> are, in file order: the continuation line (backslash, blanks, line break: skipped), the
   line comment (two slashes up to the line break: skipped), blanks, the comment opener (BEGIN(comment): CommentLex.scan), line
   ends (LF+ and (CR LF)+: skipped, a token in the query syntax), one rule per literal (gen/Gen_LexRules.v: text and token,
   regenerated from lexer.l), identifiers {alpha}{idchr}*, naturals {num}, floating-point numbers
   {num}(.{num})?([eE][+-]?{num})?, the catch-all dot (error token) and strings (quote, one or more non-quotes, quote).
   The literal table is a parameter of the scanner; Properties_C09 instantiates it with the regenerated one and checks that the
   rules that are not literals are the modelled ones.  What is left to the glue (tools/lrsim.py) is the classification of an
   identifier as keyword or type name. *)
From Coq Require Import List Arith Bool Ascii String Lia.
From Utap Require Import CommentLex.
Import ListNotations.


Local Open Scope string_scope.
Definition reference_other_rules : list string :=      (* sorted, as the generator writes them; the name definitions of lexer.l (alpha, idchr, num) are expanded *)
  ["""/*"""; """//""[^\n]*"; """\\""[\t ]*""\n"""; "(\r\n)+"; "."; "<<EOF>>"; "[ \t]+"; "[0-9]+"; "[0-9]+("".""[0-9]+)?([eE](""+""|""-"")?[0-9]+)?"; "[a-zA-Z_][a-zA-Z0-9_$#]*"; "\""[^\""]+\"""; "\n+"].
Definition reference_defs : list (string * string) := [].      (* definitions are expanded by the reader: their names and nesting are immaterial *)
Local Close Scope string_scope.

Inductive kind := KLit (tok : string) | KIdent | KNum | KFloat | KString | KError | KLf | KCrLf.      (* KLf / KCrLf: the two line-end rules *)
Inductive skipkind := SCont | SLineComment | SBlank.
Inductive lexeme := Tok (k : kind) (len : nat) | Skip (w : skipkind) (len : nat) | Comment | Eof.

Definition code (c : ascii) : nat := nat_of_ascii c.
Definition is_digit (c : ascii) : bool := (48 <=? code c) && (code c <=? 57).
Definition is_alpha (c : ascii) : bool := ((97 <=? code c) && (code c <=? 122)) || ((65 <=? code c) && (code c <=? 90)) || (code c =? 95).
Definition is_idchr (c : ascii) : bool := is_alpha c || is_digit c || (code c =? 36) || (code c =? 35).
Definition is_blank (c : ascii) : bool := (code c =? 32) || (code c =? 9).
Definition is_nl (c : ascii) : bool := code c =? 10.
Fixpoint spanp (p : ascii -> bool) (s : text) : nat := match s with [] => 0 | c :: r => if p c then S (spanp p r) else 0 end.

(* length of the longest match of each non-literal rule at the head of s (0 = no match) *)
Definition m_ident (s : text) : nat := match s with c :: r => if is_alpha c then S (spanp is_idchr r) else 0 | [] => 0 end.
Definition m_num (s : text) : nat := spanp is_digit s.
Definition m_frac (s : text) : nat :=                      (* (.{num})? after the integer part *)
  match s with c :: r => if (code c =? 46) && (0 <? spanp is_digit r) then S (spanp is_digit r) else 0 | [] => 0 end.
Definition m_exp (s : text) : nat :=                       (* ([eE][+-]?{num})? *)
  match s with
  | c :: r => if (code c =? 101) || (code c =? 69) then
               match r with
               | d :: r' => if ((code d =? 43) || (code d =? 45)) && (0 <? spanp is_digit r') then 2 + spanp is_digit r'
                            else if 0 <? spanp is_digit r then 1 + spanp is_digit r else 0
               | [] => 0
               end else 0
  | [] => 0
  end.
Definition m_float (s : text) : nat :=
  let n := spanp is_digit s in
  if n =? 0 then 0 else let f := m_frac (skipn n s) in n + f + m_exp (skipn (n + f) s).
Definition m_blank (s : text) : nat := spanp is_blank s.
Definition m_nl (s : text) : nat := spanp is_nl s.
Fixpoint m_crlf (fuel : nat) (s : text) : nat :=
  match fuel with O => 0 | S f => match s with a :: b :: r => if (code a =? 13) && (code b =? 10) then 2 + m_crlf f r else 0 | _ => 0 end end.
Definition m_linecomment (s : text) : nat :=
  match s with a :: b :: r => if (code a =? 47) && (code b =? 47) then 2 + spanp (fun c => negb (is_nl c)) r else 0 | _ => 0 end.
Definition m_cont (s : text) : nat :=                      (* backslash, blanks, line break *)
  match s with
  | a :: r => if code a =? 92 then let k := spanp is_blank r in
                match skipn k r with c :: _ => if is_nl c then 2 + k else 0 | [] => 0 end else 0
  | [] => 0
  end.
Definition m_open (s : text) : nat := if starts open_mark s then 2 else 0.
Definition m_string (s : text) : nat :=                    (* quote, non-quotes, quote *)
  match s with
  | a :: r => if code a =? 34 then let k := spanp (fun c => negb (code c =? 34)) r in
                if (0 <? k) then match skipn k r with _ :: _ => 2 + k | [] => 0 end else 0 else 0
  | [] => 0
  end.
Definition m_any (s : text) : nat := match s with c :: _ => if is_nl c then 0 else 1 | [] => 0 end.

Section Scanner.
  Variable literals : list (string * string).               (* text, token; file order *)
  (* the longest literal that is a prefix of s; the first one among equals *)
  Fixpoint best_lit (ls : list (string * string)) (s : text) (best : option (string * nat)) : option (string * nat) :=
    match ls with
    | [] => best
    | (t, tok) :: r =>
      let w := list_ascii_of_string t in
      let best' := if starts w s && (match best with Some (_, n) => n <? List.length w | None => 0 <? List.length w end) then Some (tok, List.length w) else best in
      best_lit r s best'
    end.
  Definition m_lit (s : text) : option (string * nat) := best_lit literals s None.

  (* candidates in file order; the first of the longest wins *)
  Definition candidates (s : text) : list (lexeme * nat) :=
    [(Skip SCont (m_cont s), m_cont s); (Skip SLineComment (m_linecomment s), m_linecomment s); (Skip SBlank (m_blank s), m_blank s); (Comment, m_open s);
     (Tok KLf (m_nl s), m_nl s); (Tok KCrLf (m_crlf (List.length s) s), m_crlf (List.length s) s)]
    ++ (match m_lit s with Some (tok, n) => [(Tok (KLit tok) n, n)] | None => [] end)
    ++ [(Tok KIdent (m_ident s), m_ident s); (Tok KNum (m_num s), m_num s); (Tok KFloat (m_float s), m_float s); (Tok KError (m_any s), m_any s);
        (Tok KString (m_string s), m_string s)].
  Fixpoint pick (cs : list (lexeme * nat)) (best : lexeme) (n : nat) : lexeme * nat :=
    match cs with [] => (best, n) | (l, k) :: r => if n <? k then pick r l k else pick r best n end.
  Definition lex1 (s : text) : lexeme :=
    match s with [] => Eof | _ => fst (pick (candidates s) Eof 0) end.

  (* the token stream: (kind, text) of every token, or None when a comment is not closed *)
  Fixpoint lex (fuel : nat) (s : text) : option (list (kind * text)) :=
    match fuel with O => Some [] | S f =>
    match lex1 s with
    | Eof => Some []
    | Skip _ n => lex f (skipn n s)
    | Tok KLf n => lex f (skipn n s)
    | Tok KCrLf n => lex f (skipn n s)
    | Tok k n => option_map (cons (k, firstn n s)) (lex f (skipn n s))
    | Comment => match scan (List.length s) (skipn 2 s) with Closed rest => lex f rest | Unclosed => None end
    end end.
End Scanner.
