(* C16 (declaration blocks): declarations are only ever appended to a declaration block; whatever a later declaration does —
   succeed, be rejected, or stop in the middle — the declarations made before it are still there, unchanged and in order. *)
From Coq Require Import List Arith.
Import ListNotations.

Definition decl := (nat * nat)%type.                         (* name, content (type / initialiser / body), by identity *)
Record dstate := mkd { d_vars : list decl; d_funs : list decl; d_types : list decl }.
Inductive dop :=
| AddVar (d : decl) | AddFun (d : decl) | AddType (d : decl)    (* decl_var / decl_func_begin / decl_typedef reaching add_variable / add_function / add_symbol *)
| Rejected.                                                      (* a declaration stopped by a diagnostic before anything was added *)
Definition dstep (s : dstate) (o : dop) : dstate :=
  match o with
  | AddVar d => mkd (d_vars s ++ [d]) (d_funs s) (d_types s)
  | AddFun d => mkd (d_vars s) (d_funs s ++ [d]) (d_types s)
  | AddType d => mkd (d_vars s) (d_funs s) (d_types s ++ [d])
  | Rejected => s
  end.
Definition drun (os : list dop) (s : dstate) : dstate := fold_left dstep os s.
Definition extends (a b : dstate) : Prop :=
  (exists x, d_vars b = d_vars a ++ x) /\ (exists y, d_funs b = d_funs a ++ y) /\ (exists z, d_types b = d_types a ++ z).
Lemma extends_refl a : extends a a.
Proof. repeat split; exists []; now rewrite app_nil_r. Qed.
Lemma extends_trans a b c : extends a b -> extends b c -> extends a c.
Proof.
  intros ((x & Hx) & (y & Hy) & (z & Hz)) ((x' & Hx') & (y' & Hy') & (z' & Hz')).
  repeat split; [exists (x ++ x') | exists (y ++ y') | exists (z ++ z')]; rewrite ?Hx', ?Hy', ?Hz', ?Hx, ?Hy, ?Hz, <- app_assoc; reflexivity.
Qed.
Lemma dstep_extends s o : extends s (dstep s o).
Proof. destruct o; cbn; repeat split; try (exists []; now rewrite app_nil_r); eexists; reflexivity. Qed.
Theorem prefix_kept : forall os s, extends s (drun os s).
Proof.
  induction os as [|o os IH]; intro s; cbn; [apply extends_refl|].
  eapply extends_trans; [apply dstep_extends | apply IH].
Qed.
(* two continuations of the same prefix agree on everything the prefix declared *)
Theorem same_prefix_same_declarations pre rest1 rest2 s :
  extends (drun pre s) (drun (pre ++ rest1) s) /\ extends (drun pre s) (drun (pre ++ rest2) s).
Proof. unfold drun. rewrite !fold_left_app. split; apply prefix_kept. Qed.
