(* C07: binders that range over dynamic templates (forall / exists / sum / foreach (p : T) ... p.member ...).

   ExpressionBuilder keeps, per binder name, the frames of the templates the open quantifiers of that name range over
   (dynamicFrames: a map from names to stacks, innermost last; push_dynamic_frame_of / pop_dynamic_frame_of), and expr_dot
   looks a member of `p` up in the innermost frame recorded for the name p.  The specification is the textbook one: an
   environment of (name, template) pairs, innermost first.  The theorem says they agree on every expression, whatever the
   nesting and however names are reused; the variant that keeps ONE frame per name (the code before repair d15ca7f) does not. *)
From Coq Require Import List Arith Bool.
Import ListNotations.

Definition name := nat.
Definition templ := nat.
(* p.member uses, quantifiers, and conjunction-like nodes with several operands *)
Inductive dexp := DMember (p : name) | DQuant (p : name) (t : templ) (body : dexp) | DNode (args : list dexp).

(* ---- specification: lexical environment ---- *)
Fixpoint lookup (env : list (name * templ)) (p : name) : option templ :=
  match env with [] => None | (q, t) :: r => if Nat.eqb q p then Some t else lookup r p end.
Fixpoint spec (env : list (name * templ)) (e : dexp) : list (option templ) :=
  match e with
  | DMember p => [lookup env p]
  | DQuant p t body => spec ((p, t) :: env) body
  | DNode args => flat_map (spec env) args
  end.

(* ---- implementation: one stack of templates per name, threaded through the traversal ---- *)
Definition dframes := name -> list templ.
Definition dpush (d : dframes) (p : name) (t : templ) : dframes := fun q => if Nat.eqb q p then t :: d q else d q.
Definition dpop (d : dframes) (p : name) : dframes := fun q => if Nat.eqb q p then tl (d q) else d q.
Definition dlook (d : dframes) (p : name) : option templ := hd_error (d p).
(* returns the members resolved and the state after the expression (the builder's state persists between callbacks) *)
Fixpoint walk (d : dframes) (e : dexp) : list (option templ) * dframes :=
  match e with
  | DMember p => ([dlook d p], d)
  | DQuant p t body => let '(r, d') := walk (dpush d p t) body in (r, dpop d' p)
  | DNode args => fold_left (fun acc a => let '(r, d') := walk (snd acc) a in (fst acc ++ r, d')) args ([], d)
  end.

(* the variant with one frame per name: opening a quantifier overwrites the entry, closing it erases the entry *)
Definition mframes := name -> option templ.
Definition mset (d : mframes) (p : name) (t : option templ) : mframes := fun q => if Nat.eqb q p then t else d q.
Fixpoint walk1 (d : mframes) (e : dexp) : list (option templ) * mframes :=
  match e with
  | DMember p => ([d p], d)
  | DQuant p t body => let '(r, d') := walk1 (mset d p (Some t)) body in (r, mset d' p None)
  | DNode args => fold_left (fun acc a => let '(r, d') := walk1 (snd acc) a in (fst acc ++ r, d')) args ([], d)
  end.

(* ---- the stacks represent the environment ---- *)
Definition repr (env : list (name * templ)) : dframes := fun q => map snd (filter (fun pt => Nat.eqb (fst pt) q) env).

Lemma repr_look env p : dlook (repr env) p = lookup env p.
Proof.
  unfold dlook, repr. induction env as [|[q t] env IH]; [reflexivity|]. cbn [filter fst lookup].
  destruct (Nat.eqb q p); [reflexivity | exact IH].
Qed.
Lemma repr_push env p t q : dpush (repr env) p t q = repr ((p, t) :: env) q.
Proof. unfold dpush, repr. cbn [filter fst]. rewrite Nat.eqb_sym. destruct (Nat.eqb p q); reflexivity. Qed.
Lemma repr_pop env p t q : dpop (repr ((p, t) :: env)) p q = repr env q.
Proof. unfold dpop, repr. cbn [filter fst]. rewrite Nat.eqb_sym. destruct (Nat.eqb p q) eqn:E; [|reflexivity]. cbn. reflexivity. Qed.

Definition same (a b : dframes) : Prop := forall q, a q = b q.

Section Induction.
  Variable P : dexp -> Prop.
  Hypothesis Hm : forall p, P (DMember p).
  Hypothesis Hq : forall p t b, P b -> P (DQuant p t b).
  Hypothesis Hn : forall args, Forall P args -> P (DNode args).
  Fixpoint dexp_ind' (e : dexp) : P e :=
    match e with
    | DMember p => Hm p
    | DQuant p t b => Hq p t b (dexp_ind' b)
    | DNode args => Hn args ((fix go (l : list dexp) : Forall P l := match l with [] => Forall_nil P | x :: r => Forall_cons x (dexp_ind' x) (go r) end) args)
    end.
End Induction.

(* walking from any state that represents the environment resolves every member as the specification does and comes back to a
   state that represents the same environment: quantifiers nested in each other or following each other, with the same or with
   different binder names, never disturb an enclosing binder *)
Lemma walk_correct e : forall env d, same d (repr env) -> fst (walk d e) = spec env e /\ same (snd (walk d e)) (repr env).
Proof.
  induction e as [p|p t b IH|args IH] using dexp_ind'; intros env d Hs.
  - cbn. split; [|exact Hs]. f_equal. unfold dlook. rewrite Hs. apply repr_look.
  - cbn [walk spec]. destruct (walk (dpush d p t) b) as [r d'] eqn:E.
    assert (same (dpush d p t) (repr ((p, t) :: env))) as Hp.
    { intro q. rewrite <- repr_push. unfold dpush. rewrite Hs. reflexivity. }
    destruct (IH _ _ Hp) as [H1 H2]. rewrite E in H1, H2. cbn [fst snd] in *. split; [exact H1|].
    intro q. rewrite <- (repr_pop env p t q). unfold dpop. rewrite H2. reflexivity.
  - cbn [walk spec].
    assert (forall acc0 d0, same d0 (repr env) ->
              let res := fold_left (fun acc a => let '(r, d') := walk (snd acc) a in (fst acc ++ r, d')) args (acc0, d0) in
              fst res = acc0 ++ flat_map (spec env) args /\ same (snd res) (repr env)) as Hf.
    { induction args as [|a args IHa]; intros acc0 d0 Hd; cbn [fold_left flat_map]; [split; [now rewrite app_nil_r | exact Hd]|].
      inversion IH as [|? ? Ha Hr]; subst. destruct (Ha env d0 Hd) as [A1 A2]. cbn [snd fst]. destruct (walk d0 a) as [r d'] eqn:E. cbn [fst snd] in *.
      destruct (IHa Hr (acc0 ++ r) d' A2) as [B1 B2]. split; [rewrite B1, A1, app_assoc; reflexivity | exact B2]. }
    destruct (Hf [] d Hs) as [F1 F2]. split; [exact F1 | exact F2].
Qed.

Theorem walk_is_spec e : fst (walk (fun _ => []) e) = spec [] e.
Proof. apply (walk_correct e [] (fun _ => [])). intro q. reflexivity. Qed.

(* one frame per name is not enough: forall (p : 1) ((exists (p : 2) p.y) && p.y) *)
Example one_frame_per_name_loses_the_outer_binder :
  let e := DQuant 0 1 (DNode [DQuant 0 2 (DMember 0); DMember 0]) in
  spec [] e = [Some 2; Some 1] /\ fst (walk (fun _ => []) e) = [Some 2; Some 1] /\ fst (walk1 (fun _ => None) e) = [Some 2; None].
Proof. repeat split. Qed.
