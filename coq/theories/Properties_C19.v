(* C19 — expression cloning, substitution and equality obey their algebraic laws.
   Models: ExprLaws.v (nodes with identity; clone_deeper, subst, equal as in src/expression.cpp);
   the arity function is a parameter `gsize` of the laws and is instantiated, for the size theorem,
   with the table regenerated from expression_t::get_size. *)
From Coq Require Import List String Bool PArith ZArith NArith.
From Utap Require Import ExprLaws ExprLawsProofs SR ExprSyntax ExprSizes.
Import ListNotations.

Section C19.
Variable gsize : string -> value -> nat -> nat.

(* a deep clone is structurally equal to the original ... *)
Theorem C19_clone_equal e n : wf gsize e -> plain e -> equal gsize e (fst (clone e n)) = true.
Proof. exact (clone_equal gsize e n). Qed.
Theorem C19_clone_same_tree e n : erase (fst (clone e n)) = erase e.
Proof. exact (clone_erase e n). Qed.
(* ... and shares no node with it (identities allocated above every identity of e) *)
Theorem C19_clone_shares_no_node e n : (maxid e < n)%positive -> forall i, In i (ids e) -> ~ In i (ids (fst (clone e n))).
Proof. exact (clone_disjoint gsize e n). Qed.

(* substitution replaces exactly the identifier occurrences of the symbol *)
Theorem C19_subst_spec s r e n : wf gsize e -> erase (fst (subst gsize s r e n)) = tsubst s (erase r) (erase e).
Proof. exact (subst_spec gsize s r e n). Qed.
Theorem C19_subst_self s idn t : ident_canon s idn t -> tsubst s idn t = t.
Proof. exact (tsubst_self gsize s idn t). Qed.
Theorem C19_subst_absent s r t : mentions s t = false -> tsubst s r t = t.
Proof. exact (tsubst_absent s r t). Qed.

(* equal() is exactly equality of the trees without identity: hence reflexive, symmetric, transitive,
   implies equal text (any function of the tree), and distinguishes trees that differ anywhere *)
Theorem C19_equal_complete a b : wf gsize a -> plain a -> erase a = erase b -> equal gsize a b = true.
Proof. exact (erase_equal gsize a b). Qed.
Theorem C19_equal_sound a b : wf gsize a -> wf gsize b -> plain a -> plain b -> coherent a b ->
  equal gsize a b = true -> erase a = erase b.
Proof. exact (equal_erase gsize a b). Qed.
Theorem C19_equal_discriminates a b : wf gsize a -> wf gsize b -> plain a -> plain b -> coherent a b ->
  erase a <> erase b -> equal gsize a b = false.
Proof.
  intros Wa Wb Pa Pb Co N. destruct (equal gsize a b) eqn:E; [|reflexivity].
  exfalso. apply N. exact (equal_erase gsize a b Wa Wb Pa Pb Co E).
Qed.
Theorem C19_equal_sym a b : wf gsize a -> wf gsize b -> plain a -> plain b -> coherent a b ->
  equal gsize a b = true -> equal gsize b a = true.
Proof.
  intros Wa Wb Pa Pb Co E. apply (erase_equal gsize b a Wb Pb). symmetry. exact (equal_erase gsize a b Wa Wb Pa Pb Co E).
Qed.
Theorem C19_equal_trans a b c : wf gsize a -> wf gsize b -> wf gsize c -> plain a -> plain b -> plain c ->
  coherent a b -> coherent b c -> equal gsize a b = true -> equal gsize b c = true -> equal gsize a c = true.
Proof.
  intros Wa Wb Wc Pa Pb Pc C1 C2 E1 E2. apply (erase_equal gsize a c Wa Pa).
  rewrite (equal_erase gsize a b Wa Wb Pa Pb C1 E1). exact (equal_erase gsize b c Wb Wc Pb Pc C2 E2).
Qed.
Theorem C19_equal_refl a : equal gsize a a = true.
Proof. destruct a. cbn [equal]. rewrite Pos.eqb_refl. reflexivity. Qed.
End C19.

(* the number of children get_size() reports equals the number the builder attached, for every
   tree of the expression language over the regenerated tables *)
Theorem C19_size_accessible (t : exprG) : fn_ok t = true -> kt_size_ok (norm t) = true.
Proof. exact (size_accessible t). Qed.

(* non-vacuity *)
Example C19_example :
  let g := fun (k : string) (_ : value) (n : nat) => n in
  let e := Node 1%positive "PLUS" (VInt 0%Z) None [Node 2%positive "IDENTIFIER" (VInt 0%Z) (Some 7%positive) []; Node 3%positive "CONSTANT" (VDouble 4609434218613702656%N) None []] in
  wf g e /\ plain e /\ equal g e (fst (clone e 10%positive)) = true /\ ids (fst (clone e 10%positive)) = [10; 11; 12]%positive
  /\ erase (fst (subst g 7%positive (Node 5%positive "CONSTANT" (VInt 9%Z) None []) e 20%positive)) =
     T "PLUS" (VInt 0%Z) None [T "CONSTANT" (VInt 9%Z) None []; T "CONSTANT" (VDouble 4609434218613702656%N) None []].
Proof. vm_compute. repeat split; reflexivity. Qed.
