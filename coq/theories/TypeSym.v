(* C14: symmetry of the typing clauses (class level) and of structural type equivalence. *)
From Coq Require Import List Bool Arith ZArith Lia.
From Utap Require Import Typing.
Import ListNotations.

(* ---- class level ------------------------------------------------------------------------------------ *)
Definition commutative (o : bop) : bool :=
  match o with OPlus | OMult | OEq | ONeq | OAnd | OOr | OBitAnd | OBitOr | OBitXor | OMin | OMax | OXor => true | _ => false end.

Lemma areEquivalent_sym a b : areEquivalent a b = areEquivalent b a.
Proof. destruct a, b; cbn; try reflexivity; apply Nat.eqb_sym. Qed.
Lemma areEqCompatible_sym a b : areEqCompatible a b = areEqCompatible b a.
Proof. unfold areEqCompatible. rewrite areEquivalent_sym, (andb_comm (is_integral a)). reflexivity. Qed.

Theorem comm_sym o a b : commutative o = true -> bin_type o a b = bin_type o b a.
Proof.
  destruct o; cbn [commutative]; intros C; try discriminate C;
    destruct a, b; cbn; try reflexivity; rewrite ?(Nat.eqb_sym tag tag0), ?(Nat.eqb_sym cap cap0); reflexivity.
Qed.

Definition accepted_opt (x : option cls) : bool := match x with Some _ => true | None => false end.
(* swapping the branches never changes acceptance, and changes the resulting class only between int and bool *)
Ltac tags := repeat match goal with
  | |- context [Nat.eqb ?x ?x] => rewrite (Nat.eqb_refl x); cbn
  | |- context [Nat.eqb ?x ?y] => destruct (Nat.eqb_spec x y); [subst|]; cbn; try (exfalso; congruence)
  end.
Theorem iif_sym_accept c a b : accepted_opt (iif_type c a b) = accepted_opt (iif_type c b a).
Proof.
  destruct c; cbn; try reflexivity; destruct a, b; cbn; try reflexivity; tags; reflexivity.
Qed.
Theorem iif_sym_kind c a b : iif_type c a b = iif_type c b a \/ (is_integral a && is_integral b && negb (cls_eqb a b) = true).
Proof.
  destruct c; cbn; try (left; reflexivity);
    destruct a, b; cbn; try (left; reflexivity); try (right; reflexivity); tags; left; reflexivity.
Qed.

(* ---- structural types: areEquivalent and isSameScalarType -------------------------------------------- *)
(* scalar-set types as the parser builds them: SCALAR below RANGE, optionally named (LABEL), below prefixes *)
Inductive scal := ScBase | ScLabel (name : nat) (s : scal) | ScRange (s : scal) (lo hi : Z) | ScPrefix (s : scal).
(* isSameScalarType skips REF / CONSTANT / SYSTEM_META on either side, then compares name-equivalently *)
Fixpoint snorm (s : scal) : scal :=
  match s with ScPrefix a => snorm a | ScLabel n a => ScLabel n (snorm a) | ScRange a l h => ScRange (snorm a) l h | ScBase => ScBase end.
Fixpoint score (a b : scal) : bool :=
  match a, b with
  | ScLabel n x, ScLabel m y => Nat.eqb n m && score x y
  | ScBase, ScBase => true
  | ScRange x l h, ScRange y l' h' => score x y && Z.eqb l l' && Z.eqb h h'
  | _, _ => false
  end.
Definition same_scalar (a b : scal) : bool := score (snorm a) (snorm b).
Lemma score_sym a : forall b, score a b = score b a.
Proof.
  induction a; destruct b; cbn; try reflexivity.
  - rewrite IHa, Nat.eqb_sym. reflexivity.
  - rewrite IHa, (Z.eqb_sym lo), (Z.eqb_sym hi). reflexivity.
Qed.
Theorem same_scalar_sym a b : same_scalar a b = same_scalar b a.
Proof. apply score_sym. Qed.
(* a reference or const wrapper on either side does not matter *)
Theorem same_scalar_prefix_l a b : same_scalar (ScPrefix a) b = same_scalar a b. Proof. reflexivity. Qed.
Theorem same_scalar_prefix_r a b : same_scalar a (ScPrefix b) = same_scalar a b. Proof. reflexivity. Qed.

Inductive sty :=
  | SInt (r : option (Z * Z)) | SBool | SClock | SDouble | SString | SChan (cap : nat) | SScal (s : scal)
  | SRecord (fs : list (nat * sty)) | SArrInt (lo hi : Z) (e : sty) | SArrScal (s : scal) (e : sty).
Definition range_eqb (a b : option (Z * Z)) : bool :=
  match a, b with Some (l, h), Some (l', h') => Z.eqb l l' && Z.eqb h h' | _, _ => true end.   (* !a.is(RANGE) || !b.is(RANGE) || equal *)
Fixpoint equiv (a b : sty) {struct a} : bool :=
  match a, b with
  | SInt r, SInt r' => range_eqb r r'
  | SBool, SBool | SClock, SClock | SDouble, SDouble | SString, SString => true
  | SChan c, SChan c' => Nat.eqb c c'
  | SScal s, SScal s' => same_scalar s s'
  | SRecord fs, SRecord fs' =>
      (fix go (l : list (nat * sty)) (l' : list (nat * sty)) {struct l} : bool :=
         match l, l' with
         | [], [] => true
         | (n, t) :: r, (n', t') :: r' => Nat.eqb n n' && equiv t t' && go r r'
         | _, _ => false
         end) fs fs'
  | SArrInt l h e, SArrInt l' h' e' => Z.eqb l l' && Z.eqb h h' && equiv e e'
  | SArrScal s e, SArrScal s' e' => same_scalar s s' && equiv e e'
  | _, _ => false
  end.
Section StyInd.
Variable P : sty -> Prop.
Hypothesis Hint : forall r, P (SInt r).
Hypothesis Hb : P SBool. Hypothesis Hc : P SClock. Hypothesis Hd : P SDouble. Hypothesis Hs : P SString.
Hypothesis Hch : forall c, P (SChan c). Hypothesis Hsc : forall s, P (SScal s).
Hypothesis Hrec : forall fs, Forall (fun x => P (snd x)) fs -> P (SRecord fs).
Hypothesis Hai : forall l h e, P e -> P (SArrInt l h e).
Hypothesis Has : forall s e, P e -> P (SArrScal s e).
Fixpoint sty_ind2 (t : sty) : P t :=
  match t with
  | SInt r => Hint r | SBool => Hb | SClock => Hc | SDouble => Hd | SString => Hs | SChan c => Hch c | SScal s => Hsc s
  | SRecord fs => Hrec fs ((fix go (l : list (nat * sty)) : Forall (fun x => P (snd x)) l :=
                     match l with [] => Forall_nil _ | x :: r => Forall_cons x (sty_ind2 (snd x)) (go r) end) fs)
  | SArrInt l h e => Hai l h e (sty_ind2 e)
  | SArrScal s e => Has s e (sty_ind2 e)
  end.
End StyInd.
Lemma range_eqb_sym a b : range_eqb a b = range_eqb b a.
Proof. destruct a as [[l h]|], b as [[l' h']|]; cbn; try reflexivity. rewrite (Z.eqb_sym l), (Z.eqb_sym h). reflexivity. Qed.
Theorem equiv_sym : forall a b, equiv a b = equiv b a.
Proof.
  induction a using sty_ind2; destruct b; cbn [equiv]; try reflexivity.
  - apply range_eqb_sym.
  - apply Nat.eqb_sym.
  - apply same_scalar_sym.
  - revert fs0. induction fs as [|[n t] fs IH]; intros [|[n' t'] fs']; try reflexivity.
    inversion H as [|? ? Ht Hr]; subst. cbn [snd] in Ht. rewrite (Ht t'), (Nat.eqb_sym n), (IH Hr fs'). reflexivity.
  - rewrite IHa, (Z.eqb_sym lo), (Z.eqb_sym hi). reflexivity.
  - rewrite IHa, same_scalar_sym. reflexivity.
Qed.
