From Coq Require Import List Bool Arith Lia.
From Utap Require Import Effects.
Import ListNotations.

(* ---- induction principles with the nested lists ----------------------------------------------------- *)
Section ExpInd.
Variable P : exp -> Prop.
Hypothesis HVar : forall x, P (Var x). Hypothesis HLit : P Lit.
Hypothesis HOp : forall es, Forall P es -> P (Op es).
Hypothesis HDot : forall a, P a -> P (Dot a). Hypothesis HIdx : forall a i, P a -> P i -> P (Idx a i).
Hypothesis HIte : forall c a b, P c -> P a -> P b -> P (Ite c a b).
Hypothesis HComma : forall a b, P a -> P b -> P (Comma a b).
Hypothesis HAssign : forall l r, P l -> P r -> P (Assign l r).
Hypothesis HIncr : forall p l, P l -> P (Incr p l).
Hypothesis HCall : forall f args, Forall P args -> P (Call f args).
Fixpoint exp_ind2 (e : exp) : P e :=
  let fix go (l : list exp) : Forall P l := match l with [] => Forall_nil P | x :: r => Forall_cons x (exp_ind2 x) (go r) end in
  match e with
  | Var x => HVar x | Lit => HLit | Op es => HOp es (go es)
  | Dot a => HDot a (exp_ind2 a) | Idx a i => HIdx a i (exp_ind2 a) (exp_ind2 i)
  | Ite c a b => HIte c a b (exp_ind2 c) (exp_ind2 a) (exp_ind2 b)
  | Comma a b => HComma a b (exp_ind2 a) (exp_ind2 b)
  | Assign l r => HAssign l r (exp_ind2 l) (exp_ind2 r)
  | Incr p l => HIncr p l (exp_ind2 l)
  | Call f args => HCall f args (go args)
  end.
End ExpInd.
Section StmInd.
Variable P : stm -> Prop.
Hypothesis H1 : forall e, P (SExpr e). Hypothesis H2 : forall e, P (SAssert e). Hypothesis H3 : forall e, P (SReturn e). Hypothesis H4 : P SEmpty.
Hypothesis H5 : forall i c s b, P b -> P (SFor i c s b). Hypothesis H6 : forall b, P b -> P (SIter b).
Hypothesis H7 : forall c b, P b -> P (SWhile c b). Hypothesis H8 : forall b c, P b -> P (SDo b c).
Hypothesis H9 : forall inits ss, Forall P ss -> P (SBlock inits ss).
Hypothesis H10 : forall c t, P t -> P (SIf c t None). Hypothesis H11 : forall c t f, P t -> P f -> P (SIf c t (Some f)).
Fixpoint stm_ind2 (s : stm) : P s :=
  let fix go (l : list stm) : Forall P l := match l with [] => Forall_nil P | x :: r => Forall_cons x (stm_ind2 x) (go r) end in
  match s with
  | SExpr e => H1 e | SAssert e => H2 e | SReturn e => H3 e | SEmpty => H4
  | SFor i c st b => H5 i c st b (stm_ind2 b) | SIter b => H6 b (stm_ind2 b)
  | SWhile c b => H7 c b (stm_ind2 b) | SDo b c => H8 b c (stm_ind2 b)
  | SBlock inits ss => H9 inits ss (go ss)
  | SIf c t None => H10 c t (stm_ind2 t) | SIf c t (Some f) => H11 c t f (stm_ind2 t) (stm_ind2 f)
  end.
End StmInd.

(* ---- all calls refer to functions below k ---------------------------------------------------------------- *)
Fixpoint cb (k : nat) (e : exp) : bool :=
  match e with
  | Var _ | Lit => true
  | Op es => forallb (cb k) es
  | Dot a | Incr _ a => cb k a
  | Idx a i | Comma a i | Assign a i => cb k a && cb k i
  | Ite c a b => cb k c && cb k a && cb k b
  | Call f args => (f <? k) && forallb (cb k) args
  end.
Fixpoint cbs (k : nat) (s : stm) : bool :=
  match s with
  | SExpr e | SAssert e | SReturn e => cb k e
  | SEmpty => true
  | SFor i c st b => cb k i && cb k c && cb k st && cbs k b
  | SIter b => cbs k b
  | SWhile c b | SDo b c => cb k c && cbs k b
  | SBlock inits ss => forallb (cb k) inits && forallb (cbs k) ss
  | SIf c t f => cb k c && cbs k t && match f with Some x => cbs k x | None => true end
  end.

(* writes only looks at the summaries of the functions that are called *)
Lemma nth_error_app_prefix {A} (G T : list A) f : f < length G -> nth_error (G ++ T) f = nth_error G f.
Proof. intros H. apply nth_error_app1. exact H. Qed.
Lemma flat_map_ext_in {A B} (f g : A -> list B) l : Forall (fun x => f x = g x) l -> flat_map f l = flat_map g l.
Proof. induction 1; cbn; congruence. Qed.
Lemma writes_prefix G T : forall e, cb (length G) e = true -> writes (G ++ T) e = writes G e.
Proof.
  induction e using exp_ind2; cbn [cb writes]; intros C; try reflexivity;
    repeat match goal with H : _ && _ = true |- _ => apply andb_true_iff in H as [? ?] end.
  - apply flat_map_ext_in. rewrite forallb_forall in C. rewrite Forall_forall in *. intros x Hx. apply H; auto.
  - auto.
  - rewrite IHe1, IHe2; auto.
  - rewrite IHe1, IHe2, IHe3; auto.
  - rewrite IHe1, IHe2; auto.
  - rewrite IHe1, IHe2; auto.
  - rewrite IHe; auto.
  - match goal with H : (_ <? _) = true |- _ => apply Nat.ltb_lt in H; rewrite (nth_error_app_prefix G T f H) end.
    f_equal. apply flat_map_ext_in. match goal with H : forallb _ _ = true |- _ => rewrite forallb_forall in H end.
    rewrite Forall_forall in *. intros x Hx. apply H; auto.
Qed.
Lemma visit_prefix G T : forall s, cbs (length G) s = true -> visit (writes (G ++ T)) s = visit (writes G) s.
Proof.
  induction s using stm_ind2; cbn [cbs visit]; intros C;
    repeat match goal with H : _ && _ = true |- _ => apply andb_true_iff in H as [? ?] end;
    rewrite ?writes_prefix by assumption; try reflexivity.
  - rewrite IHs; auto.
  - auto.
  - rewrite IHs; auto.
  - rewrite IHs; auto.
  - f_equal.
    + apply flat_map_ext_in. match goal with H : forallb (cb _) _ = true |- _ => rewrite forallb_forall in H end.
      apply Forall_forall. intros x Hx. apply writes_prefix; auto.
    + apply flat_map_ext_in. match goal with H : forallb (cbs _) _ = true |- _ => rewrite forallb_forall in H end.
      rewrite Forall_forall in *. intros x Hx. apply H; auto.
  - rewrite IHs; auto.
  - rewrite IHs1, IHs2; auto.
Qed.
Lemma reads_prefix G T : forall e, cb (length G) e = true -> reads (G ++ T) e = reads G e.
Proof.
  induction e using exp_ind2; cbn [cb reads]; intros C; try reflexivity;
    repeat match goal with H : _ && _ = true |- _ => apply andb_true_iff in H as [? ?] end.
  - apply flat_map_ext_in. rewrite forallb_forall in C. rewrite Forall_forall in *. intros x Hx. apply H; auto.
  - auto.
  - rewrite IHe1, IHe2; auto.
  - rewrite IHe1, IHe2, IHe3; auto.
  - rewrite IHe1, IHe2; auto.
  - rewrite IHe1, IHe2; auto.
  - rewrite IHe; auto.
  - match goal with H : (_ <? _) = true |- _ => apply Nat.ltb_lt in H; rewrite (nth_error_app_prefix G T f H) end.
    f_equal. apply flat_map_ext_in. match goal with H : forallb _ _ = true |- _ => rewrite forallb_forall in H end.
    rewrite Forall_forall in *. intros x Hx. apply H; auto.
Qed.
Lemma visit_reads_prefix G T : forall s, cbs (length G) s = true -> visit (reads (G ++ T)) s = visit (reads G) s.
Proof.
  induction s using stm_ind2; cbn [cbs visit]; intros C;
    repeat match goal with H : _ && _ = true |- _ => apply andb_true_iff in H as [? ?] end;
    rewrite ?reads_prefix by assumption; try reflexivity.
  - rewrite IHs; auto.
  - auto.
  - rewrite IHs; auto.
  - rewrite IHs; auto.
  - f_equal.
    + apply flat_map_ext_in. match goal with H : forallb (cb _) _ = true |- _ => rewrite forallb_forall in H end.
      apply Forall_forall. intros x Hx. apply reads_prefix; auto.
    + apply flat_map_ext_in. match goal with H : forallb (cbs _) _ = true |- _ => rewrite forallb_forall in H end.
      rewrite Forall_forall in *. intros x Hx. apply H; auto.
  - rewrite IHs; auto.
  - rewrite IHs1, IHs2; auto.
Qed.
Lemma cb_mono k k' : k <= k' -> forall e, cb k e = true -> cb k' e = true.
Proof.
  intros L. induction e using exp_ind2; cbn [cb]; intros C; auto;
    repeat match goal with H : _ && _ = true |- _ => apply andb_true_iff in H as [? ?] end;
    repeat (apply andb_true_iff; split); auto.
  - rewrite forallb_forall in *. rewrite Forall_forall in H. auto.
  - match goal with H : (_ <? _) = true |- _ => apply Nat.ltb_lt in H end. apply Nat.ltb_lt. lia.
  - match goal with H : forallb _ _ = true |- _ => rewrite forallb_forall in H end. rewrite forallb_forall. rewrite Forall_forall in *. auto.
Qed.
Lemma cbs_mono k k' : k <= k' -> forall s, cbs k s = true -> cbs k' s = true.
Proof.
  intros L. induction s using stm_ind2; cbn [cbs]; intros C; eauto using cb_mono;
    repeat match goal with H : _ && _ = true |- _ => apply andb_true_iff in H as [? ?] end;
    repeat (apply andb_true_iff; split); eauto using cb_mono.
  - rewrite forallb_forall in *. eauto using cb_mono.
  - match goal with H : forallb (cbs _) _ = true |- _ => rewrite forallb_forall in H end. rewrite forallb_forall. rewrite Forall_forall in *. auto.
Qed.

(* ---- the summaries table ------------------------------------------------------------------------------------ *)
Lemma summaries_app ds1 : forall ds2 G, summaries (ds1 ++ ds2) G = summaries ds2 (summaries ds1 G).
Proof. induction ds1; cbn; auto. Qed.
Lemma summaries_ext ds : forall G, exists T, summaries ds G = G ++ T /\ length T = length ds.
Proof.
  induction ds as [|d ds IH]; intros G; cbn.
  - exists []. rewrite app_nil_r. auto.
  - destruct (IH (G ++ [summarise G d])) as (T & E & L). exists (summarise G d :: T). rewrite E, <- app_assoc. cbn. auto.
Qed.
Lemma summaries_length ds G : length (summaries ds G) = length G + length ds.
Proof. destruct (summaries_ext ds G) as (T & E & L). rewrite E, app_length. lia. Qed.
Lemma summaries_nth defs f d : nth_error defs f = Some d ->
  let Gf := summaries (firstn f defs) [] in
  length Gf = f /\ exists T, summaries defs [] = Gf ++ summarise Gf d :: T.
Proof.
  intros H Gf. assert (Lf : f < length defs) by (apply nth_error_Some; congruence).
  assert (LG : length Gf = f) by (unfold Gf; rewrite summaries_length, firstn_length; cbn; lia).
  split; [exact LG|].
  pose proof (firstn_skipn f defs) as S. destruct (skipn f defs) as [|d' rest] eqn:Sk.
  - exfalso. rewrite app_nil_r in S. rewrite <- S in Lf. rewrite firstn_length in Lf. lia.
  - assert (d' = d).
    { rewrite <- S in H. rewrite nth_error_app2 in H by (rewrite firstn_length; lia).
      rewrite firstn_length in H. replace (f - Nat.min f (length defs)) with 0 in H by lia. cbn in H. congruence. }
    subst d'. pose proof (summaries_app (firstn f defs) (d :: rest) []) as A. rewrite S in A. rewrite A. fold Gf. cbn [summaries].
    destruct (summaries_ext rest (Gf ++ [summarise Gf d])) as (T & E & _). exists T. rewrite E, <- app_assoc. reflexivity.
Qed.

Lemma in_remove_all l from x : In x from -> ~ In x l -> In x (remove_all l from).
Proof.
  intros Hf Hn. unfold remove_all. apply filter_In. split; [exact Hf|]. apply negb_true_iff.
  destruct (existsb (Nat.eqb x) l) eqn:E; [|reflexivity]. exfalso. apply existsb_exists in E as (y & Hy & Ey).
  apply Nat.eqb_eq in Ey. subst. auto.
Qed.
Lemma ref_roots_in : forall rp args i a x, nth_error rp i = Some true -> nth_error args i = Some a -> In x (roots a) -> In x (ref_roots rp args).
Proof.
  induction rp as [|b rp IH]; intros args i a x Hr Ha Hx; destruct i; cbn in Hr; try discriminate.
  - inversion Hr; subst. destruct args; cbn in Ha; [discriminate|]. inversion Ha; subst. cbn. apply in_or_app. auto.
  - destruct args as [|a0 args]; cbn in Ha; [discriminate|]. destruct b; cbn; [apply in_or_app; right|]; eapply IH; eauto.
Qed.

(* ---- completeness of collect_possible_writes with respect to the specification ------------------------------ *)
Scheme MW_mut := Induction for MW Sort Prop with MWS_mut := Induction for MWS Sort Prop.
Combined Scheme MW_MWS_ind from MW_mut, MWS_mut.

Section Complete.
Variable defs : list fdef.
(* every function body calls only functions declared before it *)
Hypothesis scoped : forall f d, nth_error defs f = Some d -> cbs f (body d) = true.
Let G := summaries defs [].
Let n := length defs.

Lemma writes_complete_both :
  (forall e x, MW defs e x -> cb n e = true -> In x (writes G e)) /\
  (forall s x, MWS defs s x -> cbs n s = true -> In x (visit (writes G) s)).
Proof.
  apply MW_MWS_ind; cbn [cb cbs writes visit]; intros;
    repeat match goal with H : _ && _ = true |- _ => apply andb_true_iff in H as [? ?] end;
    repeat (rewrite ?in_app_iff); auto 6.
  - (* Op *) apply in_flat_map. exists e. split; auto. apply H; auto. rewrite forallb_forall in H0. auto.
  - (* call: argument *) left. apply in_flat_map. exists a. split; auto. apply H; auto.
    match goal with H : forallb _ _ = true |- _ => rewrite forallb_forall in H; auto end.
  - (* call: the body writes a non-local *)
    right. destruct (summaries_nth defs f d e) as (LG & T & E). fold G in E. rewrite E.
    rewrite nth_error_app2 by lia. rewrite LG, Nat.sub_diag. cbn [nth_error]. apply in_or_app. left. cbn [changes summarise].
    apply in_remove_all; [|assumption].
    assert (Sc : cbs f (body d) = true) by (apply scoped; assumption).
    assert (Fn : f < n) by (match goal with H : (_ <? _) = true |- _ => apply Nat.ltb_lt in H; exact H end).
    rewrite <- (visit_prefix _ (summarise (summaries (firstn f defs) []) d :: T) (body d)) by (rewrite LG; exact Sc).
    rewrite <- E. apply H. eapply cbs_mono; [|exact Sc]. lia.
  - (* call: through a non-const reference parameter *)
    right. destruct (summaries_nth defs f d e) as (LG & T & E). fold G in E. rewrite E.
    rewrite nth_error_app2 by lia. rewrite LG, Nat.sub_diag. cbn [nth_error]. apply in_or_app. right. cbn [refparam summarise].
    eapply ref_roots_in; eauto.
  - (* block initialiser *) left. apply in_flat_map. exists e. split; auto. apply H; auto.
    match goal with H : forallb (cb _) _ = true |- _ => rewrite forallb_forall in H; auto end.
  - (* block statement *) right. apply in_flat_map. exists s. split; auto. apply H; auto.
    match goal with H : forallb (cbs _) _ = true |- _ => rewrite forallb_forall in H; auto end.
Qed.

Scheme MR_mut := Induction for MR Sort Prop with MRS_mut := Induction for MRS Sort Prop.
Combined Scheme MR_MRS_ind from MR_mut, MRS_mut.
Lemma reads_complete_both :
  (forall e x, MR defs e x -> cb n e = true -> In x (reads G e)) /\
  (forall s x, MRS defs s x -> cbs n s = true -> In x (visit (reads G) s)).
Proof.
  apply MR_MRS_ind; cbn [cb cbs reads visit]; intros;
    repeat match goal with H : _ && _ = true |- _ => apply andb_true_iff in H as [? ?] end;
    repeat (rewrite ?in_app_iff); auto 6.
  - cbn. auto.
  - apply in_flat_map. exists e. split; auto. apply H; auto. rewrite forallb_forall in H0. auto.
  - left. apply in_flat_map. exists a. split; auto. apply H; auto.
    match goal with H : forallb _ _ = true |- _ => rewrite forallb_forall in H; auto end.
  - right. destruct (summaries_nth defs f d e) as (LG & T & E). fold G in E. rewrite E.
    rewrite nth_error_app2 by lia. rewrite LG, Nat.sub_diag. cbn [nth_error depends summarise].
    apply in_remove_all; [|assumption].
    assert (Sc : cbs f (body d) = true) by (apply scoped; assumption).
    assert (Fn : f < n) by (match goal with H : (_ <? _) = true |- _ => apply Nat.ltb_lt in H; exact H end).
    rewrite <- (visit_reads_prefix _ (summarise (summaries (firstn f defs) []) d :: T) (body d)) by (rewrite LG; exact Sc).
    rewrite <- E. apply H. eapply cbs_mono; [|exact Sc]. lia.
  - left. apply in_flat_map. exists e. split; auto. apply H; auto.
    match goal with H : forallb (cb _) _ = true |- _ => rewrite forallb_forall in H; auto end.
  - right. apply in_flat_map. exists s. split; auto. apply H; auto.
    match goal with H : forallb (cbs _) _ = true |- _ => rewrite forallb_forall in H; auto end.
Qed.
Theorem reads_complete e x : cb n e = true -> MR defs e x -> In x (reads G e).
Proof. intros C M. exact (proj1 reads_complete_both e x M C). Qed.

Theorem writes_complete e x : cb n e = true -> MW defs e x -> In x (writes G e).
Proof. intros C M. exact (proj1 writes_complete_both e x M C). Qed.
(* the side-effect test of the checker: changes_any_variable() is false only if nothing may be written *)
Corollary side_effect_free_sound e : cb n e = true -> writes G e = [] -> forall x, ~ MW defs e x.
Proof. intros C W x M. pose proof (writes_complete e x C M) as I. rewrite W in I. exact I. Qed.
End Complete.
