(* L-SYNTAX / SR: a shift-reduce operator-precedence machine, generic over arbitrary operator tables
   (infix with separate rule and token precedence, prefix, postfix, ternary, index / call / builtin
   brackets), its parenthesis-minimal and fully-parenthesised renderers, and the round-trip theorems.
   `rule_shifts` is bison's resolution of a shift/reduce conflict between a pending rule and the
   look-ahead token: shift iff the token's precedence is higher, or equal and right-associative. *)
From Coq Require Import List Arith Lia Bool.
Import ListNotations.

Section SR.
Variables bop uop pop fn : Type.
Variable bin_rule bin_tok : bop -> nat.
Variable bin_rassoc : bop -> bool.
Variable pre_rule : uop -> nat.
Variable post_tok : pop -> nat.
Variable post_rassoc : pop -> bool.
Variable ite_rule q_tok : nat.
Variable q_rassoc : bool.
Variable idx_tok call_tok : nat.
Variable idx_rassoc call_rassoc : bool.

Inductive tok := TAtom (n : nat) | TOp (o : bop) | TPre (u : uop) | TPost (p : pop) | TQ | TC
               | LP | RP | LB | RB | TComma | TFn (k : fn).
Inductive expr :=
  | Atom (n : nat) | Bin (o : bop) (l r : expr) | Un (u : uop) (e : expr) | Post (p : pop) (e : expr)
  | Ite (c a b : expr) | Idx (a i : expr) | Call (f : expr) (args : list expr)
  | Fn (k : fn) (a : expr) (rest : list expr).

Inductive frame := FBin (l : expr) (o : bop) | FPre (u : uop) | FQ1 (c : expr) | FQ2 (c a : expr) | FParen
                 | FIdx (a : expr) | FCall (f : expr) (rev : list expr) | FFn (k : fn) (rev : list expr).
Inductive mode := Expect | Have (e : expr).
Definition config := (list frame * mode * list tok)%type.

Definition fprec (f : frame) : option nat :=
  match f with FBin _ o => Some (bin_rule o) | FPre u => Some (pre_rule u) | FQ2 _ _ => Some ite_rule | _ => None end.
(* continuing tokens: infix, postfix, '?', call '(' and index '[' *)
Definition ctok (t : tok) : option (nat * bool) :=
  match t with
  | TOp o => Some (bin_tok o, bin_rassoc o) | TPost p => Some (post_tok p, post_rassoc p)
  | TQ => Some (q_tok, q_rassoc) | LP => Some (call_tok, call_rassoc) | LB => Some (idx_tok, idx_rassoc)
  | _ => None
  end.
Definition rule_shifts (pr : nat) (t : tok) : bool :=
  match ctok t with Some (pt, ra) => (pr <? pt) || ((pr =? pt) && ra) | None => false end.
Definition closef (f : frame) (e : expr) : expr :=
  match f with FBin l o => Bin o l e | FPre u => Un u e | FQ2 c a => Ite c a e | _ => e end.
Definition shift_on (stk : list frame) (e : expr) (t : tok) (ts : list tok) : option config :=
  match t with
  | TOp o => Some (FBin e o :: stk, Expect, ts)
  | TPost p => Some (stk, Have (Post p e), ts)
  | TQ => Some (FQ1 e :: stk, Expect, ts)
  | LP => Some (FCall e [] :: stk, Expect, ts)
  | LB => Some (FIdx e :: stk, Expect, ts)
  | _ => None
  end.
Definition mkfn (k : fn) (l : list expr) (e : expr) : expr :=
  match rev (e :: l) with x :: r => Fn k x r | [] => e end.
(* closing brackets and separators, top frame without precedence *)
Definition close_on (f : frame) (stk' : list frame) (e : expr) (t : tok) (ts' : list tok) : option config :=
  match f, t with
  | FParen, RP => Some (stk', Have e, ts')
  | FQ1 c, TC => Some (FQ2 c e :: stk', Expect, ts')
  | FIdx a, RB => Some (stk', Have (Idx a e), ts')
  | FCall g l, TComma => Some (FCall g (e :: l) :: stk', Expect, ts')
  | FCall g l, RP => Some (stk', Have (Call g (rev (e :: l))), ts')
  | FFn k l, TComma => Some (FFn k (e :: l) :: stk', Expect, ts')
  | FFn k l, RP => Some (stk', Have (mkfn k l e), ts')
  | _, _ => None
  end.

Definition step (c : config) : option config :=
  let '(stk, m, ts) := c in
  match m with
  | Expect =>
      match ts with
      | TAtom n :: ts' => Some (stk, Have (Atom n), ts')
      | LP :: ts' => Some (FParen :: stk, Expect, ts')
      | TPre u :: ts' => Some (FPre u :: stk, Expect, ts')
      | TFn k :: ts' => match ts' with LP :: ts'' => Some (FFn k [] :: stk, Expect, ts'') | _ => None end
      | RP :: ts' => match stk with FCall g [] :: stk' => Some (stk', Have (Call g []), ts') | _ => None end
      | _ => None
      end
  | Have e =>
      match stk with
      | f :: stk' =>
          match fprec f with
          | Some pr =>
              match ts with
              | t :: ts' => if rule_shifts pr t then shift_on stk e t ts' else Some (stk', Have (closef f e), ts)
              | [] => Some (stk', Have (closef f e), ts)
              end
          | None =>
              match ts with
              | t :: ts' => match ctok t with Some _ => shift_on stk e t ts' | None => close_on f stk' e t ts' end
              | [] => None
              end
          end
      | [] =>
          match ts with
          | t :: ts' => match ctok t with Some _ => shift_on stk e t ts' | None => None end
          | [] => None
          end
      end
  end.

Inductive steps : config -> config -> Prop :=
| steps_refl c : steps c c
| steps_cons c c' c'' : step c = Some c' -> steps c' c'' -> steps c c''.
Lemma steps_trans a b c : steps a b -> steps b c -> steps a c.
Proof. induction 1; eauto using steps. Qed.
Lemma steps_one a b : step a = Some b -> steps a b.
Proof. eauto using steps. Qed.

(* executable driver *)
Fixpoint run (fuel : nat) (c : config) : config :=
  match fuel with O => c | S n => match step c with Some c' => run n c' | None => c end end.
Definition parse (ts : list tok) : option expr :=
  match run (3 * length ts + 3) ([], Expect, ts) with ([], Have e, []) => Some e | _ => None end.
Definition parses_to (ts : list tok) (e : expr) : Prop := steps ([], Expect, ts) ([], Have e, []).

Lemma steps_det c c1 c2 : steps c c1 -> steps c c2 -> step c1 = None -> step c2 = None -> c1 = c2.
Proof.
  induction 1 as [c|c c' c'' Hs _ IH]; intros H2 F1 F2.
  - inversion H2; subst; [reflexivity|congruence].
  - inversion H2; subst; [congruence|].
    match goal with H : step c = Some ?x |- _ => rewrite Hs in H; inversion H; subst end. auto.
Qed.
Theorem parses_to_unique ts e1 e2 : parses_to ts e1 -> parses_to ts e2 -> e1 = e2.
Proof.
  intros H1 H2. pose proof (steps_det _ _ _ H1 H2 eq_refl eq_refl) as E. congruence.
Qed.
Lemma steps_run c c' : steps c c' -> step c' = None -> exists n, forall m, n <= m -> run m c = c'.
Proof.
  induction 1 as [c|c c1 c2 Hs _ IH]; intros F.
  - exists 0. intros m _. destruct m; cbn; [reflexivity|rewrite F; reflexivity].
  - destruct (IH F) as [n Hn]. exists (S n). intros m Hm. destruct m; [lia|]. cbn. rewrite Hs. apply Hn. lia.
Qed.

(* ---- the renderers --------------------------------------------------------------------------- *)
Definition la_shifts (pr : nat) (t : option tok) : bool := match t with Some t => rule_shifts pr t | None => false end.
(* every open rule on the right spine of e is reduced before look-ahead t *)
Fixpoint rstop (e : expr) (t : option tok) : bool :=
  match e with
  | Bin o _ r => negb (la_shifts (bin_rule o) t) && rstop r t
  | Un u x => negb (la_shifts (pre_rule u) t) && rstop x t
  | Ite _ _ b => negb (la_shifts ite_rule t) && rstop b t
  | _ => true
  end.
Definition top_shifts (top : option frame) (t : tok) : bool :=
  match top with
  | Some f => match fprec f with Some pr => rule_shifts pr t | None => true end
  | None => true
  end.
(* every continuing token on the left spine of e is shifted over the pending frame *)
Fixpoint lshift (top : option frame) (e : expr) : bool :=
  match e with
  | Bin o l _ => top_shifts top (TOp o) && lshift top l
  | Post p x => top_shifts top (TPost p) && lshift top x
  | Ite c _ _ => top_shifts top TQ && lshift top c
  | Idx a _ => top_shifts top LB && lshift top a
  | Call f _ => top_shifts top LP && lshift top f
  | _ => true
  end.

Definition paren (ts : list tok) := LP :: ts ++ [RP].
(* extra parentheses a renderer may add beyond those the table requires: around a left operand x that is
   followed by continuing token t, and around an operand x that follows pending frame f *)
Variable extraL : tok -> expr -> bool.
Variable extraR : frame -> expr -> bool.
Variable extraI : expr -> bool.           (* around the middle operand of ?: (never required) *)
Definition wl (x : expr) (t : tok) (fx : list tok) := if negb (extraL t x) && rstop x (Some t) then fx else paren fx.
Definition wr (x : expr) (f : frame) (fx : list tok) := if negb (extraR f x) && lshift (Some f) x then fx else paren fx.
Definition wi (x : expr) (fx : list tok) := if extraI x then paren fx else fx.
Fixpoint flat (e : expr) : list tok :=
  match e with
  | Atom n => [TAtom n]
  | Bin o l r => wl l (TOp o) (flat l) ++ TOp o :: wr r (FBin l o) (flat r)
  | Un u x => TPre u :: wr x (FPre u) (flat x)
  | Post p x => wl x (TPost p) (flat x) ++ [TPost p]
  | Ite c a b => wl c TQ (flat c) ++ TQ :: wi a (flat a) ++ TC :: wr b (FQ2 c a) (flat b)
  | Idx a i => wl a LB (flat a) ++ LB :: flat i ++ [RB]
  | Call f args =>
      wl f LP (flat f) ++ LP ::
      match args with
      | [] => []
      | x :: r => flat x ++ (fix go (l : list expr) := match l with [] => [] | y :: l' => TComma :: flat y ++ go l' end) r
      end ++ [RP]
  | Fn k a rest =>
      TFn k :: LP :: flat a ++
      (fix go (l : list expr) := match l with [] => [] | y :: l' => TComma :: flat y ++ go l' end) rest ++ [RP]
  end.
Fixpoint flat_rest (l : list expr) : list tok := match l with [] => [] | y :: l' => TComma :: flat y ++ flat_rest l' end.
Lemma flat_call f args : flat (Call f args) =
  wl f LP (flat f) ++ LP :: match args with [] => [] | x :: r => flat x ++ flat_rest r end ++ [RP].
Proof.
  cbn [flat]. destruct args as [|x r]; [reflexivity|].
  assert (E : (fix go (l : list expr) : list tok := match l with [] => [] | y :: l' => TComma :: flat y ++ go l' end) r = flat_rest r).
  { induction r as [|y r IH]; cbn [flat_rest]; [reflexivity|]. now rewrite IH. }
  rewrite E. reflexivity.
Qed.
Lemma flat_fn k a rest : flat (Fn k a rest) = TFn k :: LP :: flat a ++ flat_rest rest ++ [RP].
Proof.
  cbn [flat].
  assert (E : (fix go (l : list expr) : list tok := match l with [] => [] | y :: l' => TComma :: flat y ++ go l' end) rest = flat_rest rest).
  { induction rest as [|y r IH]; cbn [flat_rest]; [reflexivity|]. now rewrite IH. }
  rewrite E. reflexivity.
Qed.

(* induction principle with the nested lists *)
Section Ind.
Variable P : expr -> Prop.
Hypothesis HAtom : forall n, P (Atom n).
Hypothesis HBin : forall o l r, P l -> P r -> P (Bin o l r).
Hypothesis HUn : forall u e, P e -> P (Un u e).
Hypothesis HPost : forall p e, P e -> P (Post p e).
Hypothesis HIte : forall c a b, P c -> P a -> P b -> P (Ite c a b).
Hypothesis HIdx : forall a i, P a -> P i -> P (Idx a i).
Hypothesis HCall : forall f args, P f -> Forall P args -> P (Call f args).
Hypothesis HFn : forall k a rest, P a -> Forall P rest -> P (Fn k a rest).
Fixpoint expr_ind2 (e : expr) : P e :=
  match e with
  | Atom n => HAtom n
  | Bin o l r => HBin o l r (expr_ind2 l) (expr_ind2 r)
  | Un u x => HUn u x (expr_ind2 x)
  | Post p x => HPost p x (expr_ind2 x)
  | Ite c a b => HIte c a b (expr_ind2 c) (expr_ind2 a) (expr_ind2 b)
  | Idx a i => HIdx a i (expr_ind2 a) (expr_ind2 i)
  | Call f args => HCall f args (expr_ind2 f)
      ((fix go (l : list expr) : Forall P l := match l with [] => Forall_nil P | x :: l' => Forall_cons x (expr_ind2 x) (go l') end) args)
  | Fn k a rest => HFn k a rest (expr_ind2 a)
      ((fix go (l : list expr) : Forall P l := match l with [] => Forall_nil P | x :: l' => Forall_cons x (expr_ind2 x) (go l') end) rest)
  end.
End Ind.

Lemma lshift_noprec f e : fprec f = None -> lshift (Some f) e = true.
Proof. intros H. induction e; cbn [lshift top_shifts]; auto; rewrite H; cbn; auto. Qed.
Lemma rstop_nc e t : ctok t = None -> rstop e (Some t) = true.
Proof. intros H. induction e; cbn [rstop la_shifts]; auto; unfold rule_shifts; rewrite H; cbn; auto. Qed.
Lemma lshift_none e : lshift None e = true.
Proof. induction e; cbn; auto. Qed.
Lemma rstop_none e : rstop e None = true.
Proof. induction e; cbn; auto. Qed.

Definition P (e : expr) : Prop := forall stk more,
  lshift (hd_error stk) e = true -> rstop e (hd_error more) = true ->
  steps (stk, Expect, flat e ++ more) (stk, Have e, more).

Lemma paren_steps x stk more : P x -> steps (stk, Expect, paren (flat x) ++ more) (stk, Have x, more).
Proof.
  intros Hx. unfold paren. cbn [app]. rewrite <- app_assoc. cbn [app].
  eapply steps_cons. { reflexivity. }
  eapply steps_trans. { apply Hx. apply lshift_noprec; reflexivity. apply rstop_nc; reflexivity. }
  apply steps_one. reflexivity.
Qed.
Lemma wl_steps x t stk more : P x -> lshift (hd_error stk) x = true ->
  steps (stk, Expect, wl x t (flat x) ++ t :: more) (stk, Have x, t :: more).
Proof.
  intros Hx HL. unfold wl. destruct (negb (extraL t x) && rstop x (Some t)) eqn:E.
  - apply andb_true_iff in E as [_ E]. apply Hx; auto.
  - apply paren_steps; auto.
Qed.
Lemma wr_steps x f stk more : P x -> rstop x (hd_error more) = true ->
  steps (f :: stk, Expect, wr x f (flat x) ++ more) (f :: stk, Have x, more).
Proof.
  intros Hx HR. unfold wr. destruct (negb (extraR f x) && lshift (Some f) x) eqn:E.
  - apply andb_true_iff in E as [_ E]. apply Hx; auto.
  - apply paren_steps; auto.
Qed.
Lemma shift_step stk e t ts c' : ctok t <> None -> top_shifts (hd_error stk) t = true ->
  shift_on stk e t ts = Some c' -> step (stk, Have e, t :: ts) = Some c'.
Proof.
  intros Hc Ht Hs. destruct stk as [|f stk']; cbn [step].
  - destruct (ctok t); [exact Hs|congruence].
  - cbn [hd_error top_shifts] in Ht. destruct (fprec f).
    + rewrite Ht. exact Hs.
    + destruct (ctok t); [exact Hs|congruence].
Qed.
Lemma reduce_step f stk e more pr : fprec f = Some pr -> la_shifts pr (hd_error more) = false ->
  step (f :: stk, Have e, more) = Some (stk, Have (closef f e), more).
Proof.
  intros Hf Hn. cbn [step]. rewrite Hf. destruct more as [|t more']; auto.
  cbn [hd_error la_shifts] in Hn. rewrite Hn. reflexivity.
Qed.
(* an operand inside brackets: followed by a separator / closing token that is not a continuing token *)
Lemma inner_steps x f stk t more : P x -> fprec f = None -> ctok t = None ->
  steps (f :: stk, Expect, flat x ++ t :: more) (f :: stk, Have x, t :: more).
Proof. intros Hx Hf Ht. apply Hx; [apply lshift_noprec; exact Hf|apply rstop_nc; exact Ht]. Qed.

Lemma rest_call_steps g stk more : forall rest l x, Forall P rest -> P x ->
  steps (FCall g l :: stk, Expect, flat x ++ flat_rest rest ++ RP :: more) (stk, Have (Call g (rev l ++ x :: rest)), more).
Proof.
  induction rest as [|y rest IH]; intros l x HF Hx; cbn [flat_rest app].
  - eapply steps_trans. { apply inner_steps; auto. }
    apply steps_one. cbn. reflexivity.
  - inversion HF as [|? ? Hy HF']; subst.
    rewrite <- app_assoc.
    eapply steps_trans. { cbn [app]. apply inner_steps; auto. }
    eapply steps_cons. { cbn. reflexivity. }
    replace (rev l ++ x :: y :: rest) with (rev (x :: l) ++ y :: rest) by (cbn; rewrite <- app_assoc; reflexivity).
    apply IH; auto.
Qed.
Lemma rest_fn_steps k stk more : forall rest l x, Forall P rest -> P x ->
  steps (FFn k l :: stk, Expect, flat x ++ flat_rest rest ++ RP :: more)
        (stk, Have (match rev l ++ x :: rest with a :: r => Fn k a r | [] => x end), more).
Proof.
  induction rest as [|y rest IH]; intros l x HF Hx; cbn [flat_rest app].
  - eapply steps_trans. { apply inner_steps; auto. }
    apply steps_one. cbn [step fprec ctok close_on]. unfold mkfn. cbn [rev]. reflexivity.
  - inversion HF as [|? ? Hy HF']; subst.
    rewrite <- app_assoc.
    eapply steps_trans. { cbn [app]. apply inner_steps; auto. }
    eapply steps_cons. { cbn. reflexivity. }
    replace (match rev l ++ x :: y :: rest with [] => x | a :: r => Fn k a r end)
       with (match rev (x :: l) ++ y :: rest with [] => y | a :: r => Fn k a r end).
    + apply IH; auto.
    + cbn [rev]. rewrite <- app_assoc. cbn [app].
      destruct (rev l ++ x :: y :: rest) eqn:E; [destruct (rev l); discriminate|reflexivity].
Qed.

Lemma main : forall e, P e.
Proof.
  induction e as [n | o l r IHl IHr | u x IHx | p x IHx | c a b IHc IHa IHb | a i IHa IHi | f args IHf IHargs | k a rest IHa IHrest]
    using expr_ind2; intros stk more HL HR.
  - cbn. apply steps_one. reflexivity.
  - (* Bin *)
    cbn [lshift] in HL. cbn [rstop] in HR.
    apply andb_true_iff in HL as [HLo HLl]. apply andb_true_iff in HR as [HRo HRr].
    cbn [flat]. rewrite <- app_assoc. cbn [app].
    eapply steps_trans. { apply wl_steps; auto. }
    eapply steps_cons. { apply shift_step; [discriminate| exact HLo | reflexivity]. }
    eapply steps_trans. { apply wr_steps; auto. }
    apply steps_one. eapply reduce_step; [reflexivity|]. apply negb_true_iff in HRo. exact HRo.
  - (* Un *)
    cbn [rstop] in HR. apply andb_true_iff in HR as [HRo HRr].
    cbn [flat app].
    eapply steps_cons. { reflexivity. }
    eapply steps_trans. { apply wr_steps; auto. }
    apply steps_one. eapply reduce_step; [reflexivity|]. apply negb_true_iff in HRo. exact HRo.
  - (* Post *)
    cbn [lshift] in HL. apply andb_true_iff in HL as [HLo HLl].
    cbn [flat]. rewrite <- app_assoc. cbn [app].
    eapply steps_trans. { apply wl_steps; auto. }
    apply steps_one. apply shift_step; [discriminate| exact HLo | reflexivity].
  - (* Ite *)
    cbn [lshift] in HL. cbn [rstop] in HR.
    apply andb_true_iff in HL as [HLo HLl]. apply andb_true_iff in HR as [HRo HRr].
    cbn [flat]. rewrite <- app_assoc. cbn [app].
    eapply steps_trans. { apply wl_steps; auto. }
    eapply steps_cons. { apply shift_step; [discriminate| exact HLo | reflexivity]. }
    rewrite <- app_assoc. cbn [app].
    eapply steps_trans.
    { unfold wi. destruct (extraI a); [apply paren_steps; auto|apply inner_steps; auto]. }
    eapply steps_cons. { reflexivity. }
    eapply steps_trans. { apply wr_steps; auto. }
    apply steps_one. eapply reduce_step; [reflexivity|]. apply negb_true_iff in HRo. exact HRo.
  - (* Idx *)
    cbn [lshift] in HL. apply andb_true_iff in HL as [HLo HLl].
    cbn [flat]. rewrite <- app_assoc. cbn [app].
    eapply steps_trans. { apply wl_steps; auto. }
    eapply steps_cons. { apply shift_step; [discriminate| exact HLo | reflexivity]. }
    rewrite <- app_assoc. cbn [app].
    eapply steps_trans. { apply inner_steps; auto. }
    apply steps_one. reflexivity.
  - (* Call *)
    cbn [lshift] in HL. apply andb_true_iff in HL as [HLo HLl].
    rewrite flat_call. rewrite <- app_assoc. cbn [app].
    eapply steps_trans. { apply wl_steps; auto. }
    eapply steps_cons. { apply shift_step; [discriminate| exact HLo | reflexivity]. }
    destruct args as [|x rest].
    + cbn [app]. apply steps_one. reflexivity.
    + inversion IHargs as [|? ? Hx Hrest]; subst.
      rewrite <- !app_assoc. cbn [app].
      apply (rest_call_steps f stk more rest [] x Hrest Hx).
  - (* Fn *)
    rewrite flat_fn. cbn [app].
    eapply steps_cons. { reflexivity. }
    rewrite <- !app_assoc. cbn [app].
    apply (rest_fn_steps k stk more rest [] a IHrest IHa).
Qed.

Theorem roundtrip e : parses_to (flat e) e.
Proof.
  unfold parses_to. pose proof (main e [] []) as H. rewrite app_nil_r in H. apply H.
  - apply lshift_none.
  - apply rstop_none.
Qed.
End SR.
