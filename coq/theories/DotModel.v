(* C07, last sentence: "In queries a process-qualified name P.x binds to the declaration x of P's template, with P's
   arguments substituted."

   Implementation model (ExpressionBuilder::expr_dot, the `type.is_process()` branch; Document::add_process; type_t::create_process,
   find_index_of, rename, subst): the type of a process P = T(args) is built from T's frame (parameters first, then the locals in
   declaration order, then the locations): one labelled child per symbol.  P.x looks for the FIRST child labelled x (the frame itself
   resolves a name to the LAST symbol of that name); a location gives bool; any other member's type has the label "T::" of
   template-local scalar sets renamed to "P::" and then, for every (parameter, argument) pair of the instance's mapping in turn, the
   parameter replaced by the argument inside the type's bound expressions.

   Members are named by numbers; parameters occurring inside bounds are symbols (numbers), as in the code, where substitution
   compares symbols, not names.  The mapping is the list of pairs in the order one pass of the code applies them, which is arbitrary (address order). *)
From Coq Require Import List Arith Bool ZArith Lia.
From Utap Require Import Scope.
Import ListNotations.

Definition sym := nat.
(* bound expressions: literals, symbols (parameters, globals) and operator nodes of any arity (+, *, a[i], a.f, c ? a : b, ...) *)
Inductive bexp := BLit (z : Z) | BVar (s : sym) | BOp (o : nat) (args : list bexp).
Inductive ty :=
| TRange (lo hi : bexp)                   (* int[lo,hi] *)
| TConstRange (lo hi : bexp)              (* const int[lo,hi]: a parameter *)
| TClock | TBool | TFun | TLoc
| TScalar (owner : nat) (n : bexp)        (* a variable of a scalar set declared in template / process `owner` *)
| TShape (shape : nat) (bs : list bexp).  (* any other type - record, array, function, and their nestings - seen as its shape and the bound and size expressions in it:
                                            type_t::subst rebuilds the type over the substituted expressions *)

(* expression_t::subst: an IDENTIFIER node of that symbol is replaced, every other node is rebuilt over its substituted children *)
Fixpoint bsubst (x : sym) (e : bexp) (b : bexp) : bexp :=
  match b with
  | BLit z => BLit z
  | BVar s => if Nat.eqb s x then e else BVar s
  | BOp o args => BOp o (map (bsubst x e) args)
  end.
Definition tmap (f : bexp -> bexp) (t : ty) : ty :=
  match t with
  | TRange lo hi => TRange (f lo) (f hi) | TConstRange lo hi => TConstRange (f lo) (f hi) | TScalar o n => TScalar o (f n)
  | TClock => TClock | TBool => TBool | TFun => TFun | TLoc => TLoc
  | TShape sh bs => TShape sh (map f bs)
  end.
Definition tsubst (x : sym) (e : bexp) : ty -> ty := tmap (bsubst x e).
Definition trename (from to : nat) (t : ty) : ty :=
  match t with TScalar o n => TScalar (if Nat.eqb o from then to else o) n | _ => t end.

Definition member := (name * ty)%type.
Record proc := mkproc { p_id : nat; p_templ : nat; p_frame : list member; p_map : list (sym * bexp) }.

(* type_t::find_index_of: the first child with that label *)
Fixpoint find_index {A} (x : name) (fr : list (name * A)) : option nat :=
  match fr with
  | [] => None
  | (n, _) :: r => if Nat.eqb n x then Some 0 else option_map S (find_index x r)
  end.
Fixpoint iter {A} (n : nat) (f : A -> A) (x : A) : A := match n with O => x | S k => f (iter k f x) end.
Definition subst_all (m : list (sym * bexp)) (t : ty) : ty := fold_left (fun t se => tsubst (fst se) (snd se) t) m t.
(* expr_dot: one pass over the mapping per entry.  The mapping is a std::map keyed by symbol address, so the order of a pass is
   not under the library's control; p_map is that order, whatever it is *)
Definition subst_rounds (m : list (sym * bexp)) (t : ty) : ty := iter (length m) (subst_all m) t.
Definition is_loc (t : ty) : bool := match t with TLoc => true | _ => false end.
Definition dot (p : proc) (x : name) : option (nat * ty) :=
  match find_index x (p_frame p) with
  | None => None                                                          (* "has no member named x" *)
  | Some i =>
    match nth_error (p_frame p) i with
    | None => None
    | Some (_, t) => Some (i, if is_loc t then TBool else subst_rounds (p_map p) (trename (p_templ p) (p_id p) t))
    end
  end.

(* ---------- what the arguments mean: environments ---------- *)
(* values and the meaning of literals and operators are left open: integers, arrays, records ... *)
Section Meaning.
  Variable V : Type.
  Variable lit : Z -> V.
  Variable opsem : nat -> list V -> V.
  Definition env := sym -> V.
  Definition upd (r : env) (x : sym) (v : V) : env := fun y => if Nat.eqb y x then v else r y.
  Fixpoint beval (r : env) (b : bexp) : V :=
    match b with BLit z => lit z | BVar s => r s | BOp o args => opsem o (map (beval r) args) end.
  (* the environment an instantiation chain denotes: T(n := k + 1000) instantiated by Q(k := 3) gives k = 3, n = 1003;
     the mapping lists the innermost template's parameters first *)
  Fixpoint env_of (m : list (sym * bexp)) (r : env) : env :=
    match m with [] => r | (x, e) :: rest => let r' := env_of rest r in upd r' x (beval r' e) end.
End Meaning.
Fixpoint fv (b : bexp) : list sym :=
  match b with BLit _ => [] | BVar s => [s] | BOp _ args => flat_map fv args end.
Definition bounds_of (t : ty) : list bexp :=
  match t with TRange lo hi => [lo; hi] | TConstRange lo hi => [lo; hi] | TScalar _ n => [n] | TShape _ bs => bs | _ => [] end.
(* an instantiation chain, innermost template first: the parameters are distinct and no argument mentions its own parameter or
   one of a level below it (it may mention parameters of the levels wrapped around it, and anything that is not a parameter) *)
Fixpoint tri (seen : list sym) (m : list (sym * bexp)) : Prop :=
  match m with [] => True | (x, e) :: rest => ~ In x seen /\ (forall y, In y (fv e) -> y <> x /\ ~ In y seen) /\ tri (x :: seen) rest end.
Definition triangular (m : list (sym * bexp)) : Prop := tri [] m.

Definition bsubst_all (m : list (sym * bexp)) (b : bexp) : bexp := fold_left (fun b se => bsubst (fst se) (snd se) b) m b.
Definition bsubst_rounds (m : list (sym * bexp)) (b : bexp) : bexp := iter (length m) (bsubst_all m) b.
(* the member a qualified name selects, as a symbol of the template's frame *)
Definition first_member {A} (fr : list (name * A)) (x : name) : option A :=
  match find_index x fr with Some i => option_map snd (nth_error fr i) | None => None end.
