(* C17 — analysis methods are reported as supported only when the model permits them.
   `check` is the hand model of FeatureChecker (src/featurechecker.cpp) on an abstract document. *)
From Coq Require Import List Bool Permutation.
From Utap Require Import Feature.

Theorem C17_symbolic_sound d : symbolic (check d) = true -> ~ spec_symbolic_restricted d.
Proof. exact (symbolic_sound d). Qed.
Theorem C17_stochastic_sound d : stochastic (check d) = true -> ~ spec_stochastic_restricted d.
Proof. exact (stochastic_sound d). Qed.
Theorem C17_concrete_sound d : concrete (check d) = true -> d_priorities d = false.
Proof. exact (concrete_sound d). Qed.
Theorem C17_uninstantiated_irrelevant d : check (drop_uninstantiated d) = check d.
Proof. exact (uninstantiated_irrelevant d). Qed.
Theorem C17_order_irrelevant d d' :
  Permutation (d_vars d) (d_vars d') -> Permutation (d_chans d) (d_chans d') -> Permutation (d_templs d) (d_templs d') ->
  d_dynamic d = d_dynamic d' -> d_priorities d = d_priorities d' -> check d = check d'.
Proof. exact (order_irrelevant d d'). Qed.
Theorem C17_template_order_irrelevant t t' :
  Permutation (t_vars t) (t_vars t') -> Permutation (t_chans t) (t_chans t') -> Permutation (t_invs t) (t_invs t') -> Permutation (t_edges t) (t_edges t') ->
  t_instantiated t = t_instantiated t' -> templ_symbolic_flags t = templ_symbolic_flags t' /\ templ_chan_flags t = templ_chan_flags t'.
Proof. exact (templ_order_irrelevant t t'). Qed.
Theorem C17_conjunct_position a b : guard_flags (GAnd a b) = guard_flags (GAnd b a) /\ rate_flags (GAnd a b) = rate_flags (GAnd b a).
Proof. exact (conjunct_position a b). Qed.
Theorem C17_operand_order l r : guard_flags (GCmp l r) = guard_flags (GCmp r l).
Proof. exact (operand_order l r). Qed.

Example C17_nonvacuous :
  let g := GAnd (GLeaf false) (GCmp (mkside false true) (mkside true false)) in       (* i == 0 && x < 1.5 *)
  let t := mktempl true nil nil nil (cons (mkedge (Some g) nil) nil) in
  symbolic (check (mkdoc nil nil (cons t nil) false false)) = false /\ symbolic (check (mkdoc nil nil nil false false)) = true.
Proof. vm_compute. split; reflexivity. Qed.

(* ---- assignments at any depth of an update (UpdModel.v) ---- *)
From Utap Require UpdModel.
(* the traversal rules symbolic analysis out exactly when some assignment of the update, at whatever depth (chained, inside an operand, in a branch of a conditional,
   in an element of a comma list), involves a floating-point value and has a target that is not a hybrid clock whichever way it is evaluated *)
Theorem C17_nested_assignments : forall e, UpdModel.visit e = true <-> UpdModel.offending e.
Proof. intro e. split; [apply UpdModel.visit_sound | apply UpdModel.visit_complete]. Qed.
Print Assumptions C17_nested_assignments.
(* looking at the top-level assignments of the comma list only (the code before repair a7f3c6f) misses h = (x = 1.5) *)
Theorem C17_top_level_only_refuted : exists e, UpdModel.offending e /\ UpdModel.visit_top e = false.
Proof. eexists. split; [exact (proj1 UpdModel.top_level_only_refuted) | exact (proj2 (proj2 UpdModel.top_level_only_refuted))]. Qed.
Print Assumptions C17_top_level_only_refuted.

