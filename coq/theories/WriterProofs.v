(* C20: the independent reader, run on what the writer model emits, returns the graph of the document. *)
From Coq Require Import List String Ascii Arith Bool Lia DecimalString DecimalNat Decimal.
From Utap Require Import WriterModel.
Import ListNotations.
Local Open Scope string_scope.

(* ---------- strings ---------- *)
Lemma append_nil_r (s : string) : s ++ "" = s.
Proof. induction s as [|c s IH]; cbn; [reflexivity | now rewrite IH]. Qed.
Lemma append_inj_l (p a b : string) : p ++ a = p ++ b -> a = b.
Proof. induction p as [|c p IH]; cbn; intro H; [exact H | injection H as H; auto]. Qed.
Lemma to_uint_nonnil (n : nat) : Nat.to_uint n <> Nil.
Proof.
  intro Z. pose proof (Unsigned.to_of (Nat.to_uint n)) as H. rewrite Unsigned.of_to, Z in H. cbn in H. discriminate.
Qed.
Lemma id_str_inj (a b : nat) : id_str a = id_str b -> a = b.
Proof.
  unfold id_str; intro H; apply append_inj_l in H.
  assert (E : NilZero.uint_of_string (NilZero.string_of_uint (Nat.to_uint a)) = NilZero.uint_of_string (NilZero.string_of_uint (Nat.to_uint b)))
    by now rewrite H.
  rewrite !NilZero.usu in E by apply to_uint_nonnil.
  injection E as E. now apply Unsigned.to_uint_inj.
Qed.
Lemma text_of_txt (s : string) : text_of (txt s) = s.
Proof. unfold txt. destruct (s =? "") eqn:E; cbn; [apply String.eqb_eq in E; now subst | apply append_nil_r]. Qed.

Local Open Scope list_scope.
(* ---------- lists ---------- *)
Lemma filter_map_all {A B} (p : B -> bool) (f : A -> B) (l : list A) : (forall x, p (f x) = true) -> filter p (map f l) = map f l.
Proof. intro H; induction l as [|x l IH]; cbn; [reflexivity | now rewrite H, IH]. Qed.
Lemma filter_map_none {A B} (p : B -> bool) (f : A -> B) (l : list A) : (forall x, p (f x) = false) -> filter p (map f l) = [].
Proof. intro H; induction l as [|x l IH]; cbn; [reflexivity | now rewrite H, IH]. Qed.
Lemma traverse_map {A B C} (f : B -> option C) (g : A -> B) (h : A -> C) (l : list A) :
  (forall x, In x l -> f (g x) = Some (h x)) -> traverse f (map g l) = Some (map h l).
Proof.
  induction l as [|x l IH]; cbn; intro H; [reflexivity|].
  rewrite (H x (or_introl eq_refl)), IH; [reflexivity | intros y Hy; apply H; now right].
Qed.
Lemma index_of_ids (k a n : nat) :
  index_of (id_str k) (map id_str (seq a n)) = if (Nat.leb a k && Nat.ltb k (a + n))%bool then Some (k - a) else None.
Proof.
  revert a; induction n as [|n IH]; intro a; cbn [seq map index_of].
  - destruct (Nat.leb_spec a k), (Nat.ltb_spec k (a + 0)); cbn; try reflexivity; lia.
  - destruct (id_str k =? id_str a) eqn:E.
    + apply String.eqb_eq, id_str_inj in E; subst a.
      rewrite Nat.leb_refl, Nat.sub_diag. destruct (Nat.ltb_spec k (k + S n)); [reflexivity | lia].
    + assert (k <> a) by (intro; subst; now rewrite String.eqb_refl in E).
      rewrite IH.
      destruct (Nat.leb_spec (S a) k), (Nat.ltb_spec k (S a + n)), (Nat.leb_spec a k), (Nat.ltb_spec k (a + S n)); cbn; try reflexivity; try lia.
      f_equal; lia.
Qed.
Lemma existsb_ids (k a n : nat) : existsb (String.eqb (id_str k)) (map id_str (seq a n)) = (Nat.leb a k && Nat.ltb k (a + n))%bool.
Proof.
  revert a; induction n as [|n IH]; intro a; cbn [seq map existsb].
  - destruct (Nat.leb_spec a k), (Nat.ltb_spec k (a + 0)); cbn; try reflexivity; lia.
  - rewrite IH. destruct (id_str k =? id_str a) eqn:E.
    + apply String.eqb_eq, id_str_inj in E; subst a.
      rewrite Nat.leb_refl. destruct (Nat.ltb_spec k (k + S n)); [reflexivity | lia].
    + assert (k <> a) by (intro; subst; now rewrite String.eqb_refl in E).
      destruct (Nat.leb_spec (S a) k), (Nat.ltb_spec k (S a + n)), (Nat.leb_spec a k), (Nat.ltb_spec k (a + S n)); cbn; try reflexivity; lia.
Qed.
Lemma nodupb_ids (a n : nat) : nodupb (map id_str (seq a n)) = true.
Proof.
  revert a; induction n as [|n IH]; intro a; cbn [seq map nodupb]; [reflexivity|].
  rewrite existsb_ids, IH. destruct (Nat.leb_spec (S a) a); [lia | reflexivity].
Qed.
Lemma seq_shift_map (a n : nat) : map (Nat.add a) (seq 0 n) = seq a n.
Proof.
  revert a; induction n as [|n IH]; intro a; cbn [seq map]; [reflexivity|].
  rewrite Nat.add_0_r. f_equal. rewrite <- seq_shift, map_map.
  rewrite <- (IH (S a)). apply map_ext; intro; lia.
Qed.

(* ---------- labels ---------- *)
Lemma has_kind_lab (k k' : string) c : has_kind k (Elem "label" [("kind", k')] c) = (k' =? k).
Proof. reflexivity. Qed.
Lemma label_texts (k d : string) :
  map (fun x => text_of (kids_of x)) (label k d) = match norm k (Some d) with Some s => [s] | None => [] end.
Proof. unfold label, norm; destruct (elide k d); cbn [map kids_of]; [reflexivity | now rewrite text_of_txt]. Qed.
Lemma filter_label_same (k d : string) : filter (has_kind k) (label k d) = label k d.
Proof. unfold label; destruct (elide k d); cbn [filter]; [reflexivity | now rewrite has_kind_lab, String.eqb_refl]. Qed.
Lemma filter_label_other (k k' d : string) : (k' =? k) = false -> filter (has_kind k) (label k' d) = [].
Proof. intro H; unfold label; destruct (elide k' d); cbn [filter]; [reflexivity | now rewrite has_kind_lab, H]. Qed.
Lemma filter_olabel_same (k : string) d : filter (has_kind k) (olabel k d) = olabel k d.
Proof. destruct d; cbn; [apply filter_label_same | reflexivity]. Qed.
Lemma filter_olabel_other (k k' : string) d : (k' =? k) = false -> filter (has_kind k) (olabel k' d) = [].
Proof. destruct d; cbn; [apply filter_label_other | reflexivity]. Qed.
Lemma olabel_texts (k : string) d :
  one (map (fun x => text_of (kids_of x)) (olabel k d)) = Some (norm k d).
Proof. destruct d as [s|]; cbn [olabel]; [rewrite label_texts; cbn [norm]; destruct (elide k s); reflexivity | reflexivity]. Qed.
Lemma named_label (n k d : string) : (("label" =? n) = false) -> named n (label k d) = [].
Proof. intro H; unfold label, named; destruct (elide k d); cbn [filter is_elem]; [reflexivity | now rewrite H]. Qed.
Lemma named_olabel (n k : string) d : (("label" =? n) = false) -> named n (olabel k d) = [].
Proof. destruct d; cbn; [apply named_label | reflexivity]. Qed.

Lemma named_app n a b : named n (a ++ b) = named n a ++ named n b.
Proof. apply filter_app. Qed.
Lemma kind_app k a b : filter (has_kind k) (a ++ b) = filter (has_kind k) a ++ filter (has_kind k) b.
Proof. apply filter_app. Qed.

(* ---------- locations ---------- *)
Definition flags_of (l : wloc) : list xml :=
  if wl_committed l then [Elem "committed" [] []] else if wl_urgent l then [Elem "urgent" [] []] else [].
Lemma read_write_loc (l : wloc) : read_loc (write_loc l) = Some (graph_loc l).
Proof.
  unfold read_loc, write_loc. cbn [kids_of]. fold (flags_of l).
  set (nm := Elem "name" [] (txt (wl_name l))).
  set (ks := [nm] ++ _).
  assert (Hfl : forall k, filter (has_kind k) (flags_of l) = [])
    by (intro k; unfold flags_of; destruct (wl_committed l), (wl_urgent l); reflexivity).
  assert (A1 : named "name" ks = [nm]).
  { subst ks. rewrite !named_app, !named_olabel by reflexivity.
    unfold flags_of; destruct (wl_committed l), (wl_urgent l); reflexivity. }
  assert (A2 : label_of "invariant" ks = Some (norm "invariant" (wl_inv l))).
  { subst ks. unfold label_of. rewrite !kind_app, Hfl, filter_olabel_same, (filter_olabel_other "invariant" "exponentialrate") by reflexivity.
    cbn [app filter]. change (has_kind "invariant" nm) with false. cbn match. rewrite app_nil_r. apply olabel_texts. }
  assert (A3 : label_of "exponentialrate" ks = Some (norm "exponentialrate" (wl_rate l))).
  { subst ks. unfold label_of. rewrite !kind_app, Hfl, filter_olabel_same, (filter_olabel_other "exponentialrate" "invariant") by reflexivity.
    cbn [app filter]. change (has_kind "exponentialrate" nm) with false. cbn match. rewrite app_nil_r. apply olabel_texts. }
  assert (A4 : flag "committed" ks = wl_committed l).
  { subst ks. unfold flag. rewrite !named_app, !named_olabel by reflexivity.
    unfold flags_of; destruct (wl_committed l), (wl_urgent l); reflexivity. }
  assert (A5 : flag "urgent" ks = (negb (wl_committed l) && wl_urgent l)%bool).
  { subst ks. unfold flag. rewrite !named_app, !named_olabel by reflexivity.
    unfold flags_of; destruct (wl_committed l), (wl_urgent l); reflexivity. }
  unfold read_loc_k. rewrite A1, A2, A3, A4, A5. subst nm. cbn [kids_of]. now rewrite text_of_txt.
Qed.

(* ---------- edges ---------- *)
Definition sel_label (e : wedge) : list xml := match we_select e with [] => [] | s => label "select" (select_text s) end.
Lemma sel_filter_same e : filter (has_kind "select") (sel_label e) = sel_label e.
Proof. unfold sel_label; destruct (we_select e); [reflexivity | apply filter_label_same]. Qed.
Lemma sel_filter_other k e : ("select" =? k) = false -> filter (has_kind k) (sel_label e) = [].
Proof. intro H; unfold sel_label; destruct (we_select e); [reflexivity | now apply filter_label_other]. Qed.
Lemma sel_named n e : ("label" =? n) = false -> named n (sel_label e) = [].
Proof. intro H; unfold sel_label; destruct (we_select e); [reflexivity | now apply named_label]. Qed.
Lemma sel_texts e :
  one (map (fun x => text_of (kids_of x)) (sel_label e)) = Some (match we_select e with [] => None | s => norm "select" (Some (select_text s)) end).
Proof.
  unfold sel_label; destruct (we_select e) as [|p r]; [reflexivity|].
  rewrite label_texts. destruct (norm _); reflexivity.
Qed.

Lemma resolve_ok (nl nb : nat) (e : endp) :
  ep_ok nl nb e = true ->
  resolve (map id_str (seq 0 nl)) (map id_str (map (Nat.add nl) (seq 0 nb))) (id_str (ep_nr nl e)) = Some (gend_of e).
Proof.
  unfold resolve; destruct e as [n|b]; cbn [ep_ok ep_nr gend_of]; intro H; apply Nat.ltb_lt in H.
  - rewrite index_of_ids. cbn [Nat.leb]. destruct (Nat.ltb_spec n (0 + nl)); [|lia]. cbn. now rewrite Nat.sub_0_r.
  - rewrite index_of_ids. destruct (Nat.ltb_spec (nl + b) (0 + nl)); [lia|]. rewrite andb_false_r.
    rewrite seq_shift_map, index_of_ids.
    destruct (Nat.leb_spec nl (nl + b)); [|lia]. destruct (Nat.ltb_spec (nl + b) (nl + nb)); [|lia].
    cbn. f_equal. f_equal. lia.
Qed.

Lemma labels_query (e : wedge) (hd : list xml) (k : string) (v : option string) :
  (forall x, In x hd -> has_kind k x = false) ->
  one (map (fun x => text_of (kids_of x)) (filter (has_kind k) (write_labels e))) = Some v ->
  label_of k (hd ++ write_labels e) = Some v.
Proof.
  intros Hh Hv. unfold label_of. rewrite kind_app.
  assert (E : filter (has_kind k) hd = []).
  { induction hd as [|x hd IH]; cbn [filter]; [reflexivity|]. rewrite (Hh x) by now left. apply IH. intros y Hy; apply Hh; now right. }
  now rewrite E.
Qed.

Lemma read_write_edge (nl nb : nat) (e : wedge) :
  ep_ok nl nb (we_src e) = true -> ep_ok nl nb (we_dst e) = true ->
  read_edge (map id_str (seq 0 nl)) (map id_str (map (Nat.add nl) (seq 0 nb))) (write_edge nl e) = Some (graph_edge e).
Proof.
  intros Hs Hd. unfold read_edge, write_edge. cbn [kids_of attrs_of].
  set (src := Elem "source" _ []). set (dst := Elem "target" _ []).
  set (ks := [src; dst] ++ write_labels e).
  assert (Hn : forall n, ("label" =? n) = false -> named n (write_labels e) = []).
  { intros n H. unfold write_labels. fold (sel_label e). now rewrite !named_app, sel_named, !named_olabel. }
  assert (Hhd : forall k x, In x [src; dst] -> has_kind k x = false) by (intros k x [<-|[<-|[]]]; reflexivity).
  assert (B1 : ref_of "source" ks = Some (id_str (ep_nr nl (we_src e)))).
  { subst ks. unfold ref_of. rewrite named_app, Hn by reflexivity. reflexivity. }
  assert (B2 : ref_of "target" ks = Some (id_str (ep_nr nl (we_dst e)))).
  { subst ks. unfold ref_of. rewrite named_app, Hn by reflexivity. reflexivity. }
  assert (C1 : label_of "select" ks = Some (match we_select e with [] => None | s => norm "select" (Some (select_text s)) end)).
  { apply labels_query; [apply Hhd|]. unfold write_labels. fold (sel_label e).
    rewrite !kind_app, sel_filter_same. repeat (rewrite filter_olabel_other by reflexivity). rewrite !app_nil_r. apply sel_texts. }
  assert (C2 : label_of "guard" ks = Some (norm "guard" (we_guard e))).
  { apply labels_query; [apply Hhd|]. unfold write_labels. fold (sel_label e).
    rewrite !kind_app, sel_filter_other, filter_olabel_same by reflexivity. repeat (rewrite filter_olabel_other by reflexivity).
    cbn [app]. rewrite !app_nil_r. apply olabel_texts. }
  assert (C3 : label_of "synchronisation" ks = Some (norm "synchronisation" (we_sync e))).
  { apply labels_query; [apply Hhd|]. unfold write_labels. fold (sel_label e).
    rewrite !kind_app, sel_filter_other, filter_olabel_same by reflexivity. repeat (rewrite filter_olabel_other by reflexivity).
    cbn [app]. rewrite !app_nil_r. apply olabel_texts. }
  assert (C4 : label_of "assignment" ks = Some (norm "assignment" (we_assign e))).
  { apply labels_query; [apply Hhd|]. unfold write_labels. fold (sel_label e).
    rewrite !kind_app, sel_filter_other, filter_olabel_same by reflexivity. repeat (rewrite filter_olabel_other by reflexivity).
    cbn [app]. rewrite !app_nil_r. apply olabel_texts. }
  assert (C5 : label_of "probability" ks = Some (norm "probability" (we_prob e))).
  { apply labels_query; [apply Hhd|]. unfold write_labels. fold (sel_label e).
    rewrite !kind_app, sel_filter_other, filter_olabel_same by reflexivity. repeat (rewrite filter_olabel_other by reflexivity).
    cbn [app]. apply olabel_texts. }
  unfold read_edge_k. rewrite B1, B2, (resolve_ok nl nb _ Hs), (resolve_ok nl nb _ Hd), C1, C2, C3, C4, C5.
  unfold graph_edge, controllable. destruct (we_control e); reflexivity.
Qed.

(* ---------- templates ---------- *)
Lemma list_nat_eqb_eq a b : list_nat_eqb a b = true -> a = b.
Proof. unfold list_nat_eqb; destruct (list_eq_dec Nat.eq_dec a b); [auto | discriminate]. Qed.

Lemma named_locs_same l : named "location" (map write_loc l) = map write_loc l.
Proof. apply filter_map_all; reflexivity. Qed.
Lemma named_locs n l : ("location" =? n) = false -> named n (map write_loc l) = [].
Proof. intro H; apply filter_map_none; intro x; exact H. Qed.
Lemma named_bps_same b l : named "branchpoint" (map (write_bp b) l) = map (write_bp b) l.
Proof. apply filter_map_all; reflexivity. Qed.
Lemma named_bps n b l : ("branchpoint" =? n) = false -> named n (map (write_bp b) l) = [].
Proof. intro H; apply filter_map_none; intro x; exact H. Qed.
Lemma named_edges_same b l : named "transition" (map (write_edge b) l) = map (write_edge b) l.
Proof. apply filter_map_all; reflexivity. Qed.
Lemma named_edges n b l : ("transition" =? n) = false -> named n (map (write_edge b) l) = [].
Proof. intro H; apply filter_map_none; intro x; exact H. Qed.

Theorem read_write_templ (t : wtempl) : wf_templ t = true -> read_templ (write_templ t) = Some (graph_of t).
Proof.
  unfold wf_templ. set (nl := List.length (wt_locs t)). set (nb := List.length (wt_bps t)).
  intro W. apply andb_prop in W as [W We]. apply andb_prop in W as [W Wi]. apply andb_prop in W as [Wl Wb].
  apply list_nat_eqb_eq in Wl, Wb.
  unfold read_templ, write_templ. cbn [kids_of]. fold nl.
  set (h1 := Elem "name" [] (txt (wt_name t))). set (h2 := Elem "parameter" [] _). set (h3 := Elem "declaration" [] _).
  set (ks := [h1; h2; h3] ++ _).
  assert (Hinit : forall n, ("init" =? n) = false -> named n (write_init t) = []).
  { intros n H. unfold write_init. destruct (wt_init t); [|reflexivity]. unfold named; cbn [filter is_elem]. now rewrite H. }
  assert (N1 : named "location" ks = map write_loc (wt_locs t)).
  { subst ks. rewrite !named_app, Hinit, named_locs_same, named_bps, named_edges by reflexivity. now rewrite app_nil_r. }
  assert (N2 : named "branchpoint" ks = map (write_bp nl) (wt_bps t)).
  { subst ks. rewrite !named_app, Hinit, named_locs, named_bps_same, named_edges by reflexivity. now rewrite app_nil_r. }
  assert (N3 : named "transition" ks = map (write_edge nl) (wt_edges t)).
  { subst ks. rewrite !named_app, Hinit, named_locs, named_bps, named_edges_same by reflexivity. reflexivity. }
  assert (N4 : named "name" ks = [h1]).
  { subst ks. rewrite !named_app, Hinit, named_locs, named_bps, named_edges by reflexivity. reflexivity. }
  assert (N5 : named "init" ks = write_init t).
  { subst ks. rewrite !named_app, named_locs, named_bps, named_edges by reflexivity.
    rewrite app_nil_r. unfold write_init, named. destruct (wt_init t); reflexivity. }
  rewrite N1, N2, N3, N4, N5.
  assert (L : traverse id_of (map write_loc (wt_locs t)) = Some (map id_str (seq 0 nl))).
  { rewrite <- Wl, map_map. apply traverse_map. reflexivity. }
  assert (B : traverse id_of (map (write_bp nl) (wt_bps t)) = Some (map id_str (map (Nat.add nl) (seq 0 nb)))).
  { rewrite <- Wb, map_map. apply traverse_map. reflexivity. }
  rewrite L, B.
  assert (ND : nodupb (map id_str (seq 0 nl) ++ map id_str (map (Nat.add nl) (seq 0 nb))) = true).
  { rewrite seq_shift_map, <- map_app, <- seq_app. apply nodupb_ids. }
  rewrite ND.
  rewrite (traverse_map read_loc write_loc graph_loc) by (intros; apply read_write_loc).
  rewrite (traverse_map _ (write_edge nl) graph_edge).
  2:{ intros e He. rewrite forallb_forall in We. specialize (We e He). apply andb_prop in We as [Hs Hd]. now apply read_write_edge. }
  unfold graph_of. subst h1. cbn [kids_of]. rewrite text_of_txt, !map_length, seq_length. fold nb.
  unfold write_init. destruct (wt_init t) as [k|]; cbn [one attrs_of attr].
  - change ("ref" =? "ref") with true. cbn match. rewrite index_of_ids. apply Nat.ltb_lt in Wi.
    cbn [Nat.leb andb]. destruct (Nat.ltb_spec k (0 + nl)); [|lia]. now rewrite Nat.sub_0_r.
  - reflexivity.
Qed.

(* ---------- the labels that are written are the expressions of the edge ---------- *)
Lemma norm_plain (k s : string) : (s =? "1") = false -> prefix "1 && " s = false -> norm k (Some s) = Some s.
Proof. intros H P. unfold norm, strip, elide. now rewrite H, P. Qed.
Lemma norm_rate_one : norm "exponentialrate" (Some "1") = Some "1".
Proof. reflexivity. Qed.
