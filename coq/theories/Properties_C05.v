(* C05 — XML and XTA renderings of the same model yield equivalent documents.
   Only statements, each closed by a lemma of XtaXml.v / DocProofs.v, with the axioms it rests on. *)
From Coq Require Import List Arith Bool.
From Utap Require Import DocModel DocProofs XtaXml.
Import ListNotations.

(* The callbacks of the XTA grammar for a process body (all states, then branchpoints, then commit / urgent flags, then
   init and transitions, end points and init spelled by name) build exactly the document that the XML reader's callbacks
   (each location with its flags, then branchpoints, init, transitions) build — for every template of any size with
   pairwise distinct location names, whatever was built before it. *)
Theorem C05_xta_xml_template : forall D p m0 t cs cs' m2,
  read_templ m0 t = (Some cs, m2) -> xta_templ m0 t = Some cs' -> nodup_names [] (xt_locs t) = true ->
  build cs' (mkb D None p) = build cs (mkb D None p).
Proof. exact xta_xml_templ. Qed.
Print Assumptions C05_xta_xml_template.

(* the part that differs between the front ends: declaring the flags after all locations and branchpoints *)
Theorem C05_flags_commute : forall D p t bs ls, dt_locs t = [] -> nodup_names [] ls = true ->
  build (map plain_cb ls ++ map bp_cb bs ++ xta_flags ls) (mkb D (Some t) p) = build (flat_map read_loc ls ++ map bp_cb bs) (mkb D (Some t) p).
Proof. exact xta_xml_locs. Qed.
Print Assumptions C05_flags_commute.

(* an edge whose end point does not resolve contributes nothing in either front end: its labels are isolated *)
Theorem C05_failed_edge_isolated : forall D t s d ctl ls,
  (is_loc t s || is_bp t s) && (is_loc t d || is_bp t d) = false -> forallb is_label ls = true ->
  build (EdgeBegin s d ctl :: ls ++ [EdgeEnd]) (mkb D (Some t) PNone) = mkb D (Some t) PNone.
Proof. exact failed_edge_isolated. Qed.
Print Assumptions C05_failed_edge_isolated.

Example C05_example :
  let t := mkxtempl 0 [mkxloc 1 (Some 11) (Some 5) None false true; mkxloc 2 (Some 12) None None true false; mkxloc 3 (Some 13) None None false false] [7] (Some 1)
                    [mkxedge 1 2 true [(KSelect, 20); (KGuard, 21)]; mkxedge 2 7 false [(KUpdate, 22)]] in
  match read_templ [] t, xta_templ [] t with
  | (Some cs, _), Some cs' => cs <> cs' /\ templates (build cs' b0) = templates (build cs b0) /\ length (templates (build cs b0)) = 1
  | _, _ => False
  end.
Proof. vm_compute. split; [discriminate | split; reflexivity]. Qed.
