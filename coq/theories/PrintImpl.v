(* Hand model of expression_t::print (src/expression.cpp) for the expression fragment of the SR
   machine, over the numeric precedence table regenerated from get_precedence (gen/Gen_PrintPrec.v).
   The printer compares the parent's number with the number of the child's *root* only
   (embrace: parenthesise if parent >= child; embrace_strict: if parent > child).
   `covered t` decides whether the printer's output coincides with a rendering that provably parses
   back to t (the table-required parentheses plus the printer's own extra ones). *)
From Coq Require Import List String Bool Arith ZArith Lia.
From Utap Require Import SR OpTableRef ExprSyntax.
From Utap.gen Require Import Gen_OpTable Gen_PrintPrec.
Import ListNotations.
Local Open Scope string_scope.

Fixpoint lookupZ (k : string) (l : list (string * Z)) : option Z :=
  match l with [] => None | (a, v) :: r => if String.eqb k a then Some v else lookupZ k r end.
(* get_precedence_or_default: -1 when get_precedence throws *)
Definition kprec (k : string) : Z := match lookupZ k print_prec_table with Some v => v | None => (-1)%Z end.

Definition root_kind (e : exprG) : string :=
  match e with
  | Atom _ _ _ _ _ => "IDENTIFIER"            (* IDENTIFIER and CONSTANT share one number; checked by atoms_same_prec *)
  | Bin _ _ _ _ o _ _ => bin_kind o
  | Un _ _ _ _ u _ => pre_kind u
  | Post _ _ _ _ p _ => post_kind p
  | Ite _ _ _ _ _ _ _ => ite_kind
  | Idx _ _ _ _ _ _ => "ARRAY"
  | Call _ _ _ _ _ _ => "FUN_CALL"
  | Fn _ _ _ _ k _ _ => k
  end.
Definition eprec (e : exprG) : Z := kprec (root_kind e).
Definition atoms_same_prec : bool := (kprec "IDENTIFIER" =? kprec "CONSTANT")%Z.

Definition embrace (p : Z) (x : exprG) : bool := (p >=? eprec x)%Z.         (* true = parenthesise *)
Definition embrace_strict (p : Z) (x : exprG) : bool := (p >? eprec x)%Z.
Definition is_kind (k s : string) := String.eqb k s.
(* ASSIGN <= kind && kind <= ASS_RSHIFT *)
Definition is_assign_kind (k : string) : bool :=
  existsb (String.eqb k) ["ASSIGN"; "ASS_PLUS"; "ASS_MINUS"; "ASS_DIV"; "ASS_MOD"; "ASS_MULT"; "ASS_AND"; "ASS_OR"; "ASS_XOR"; "ASS_LSHIFT"; "ASS_RSHIFT"].
Definition is_quant (u : uop) : bool := match pre_binder u with Some _ => true | None => false end.

(* the printer's parenthesis decisions, phrased as the oracles of SR.flat *)
Definition pL (t : tokG) (x : exprG) : bool :=
  match t with
  | TOp _ _ _ _ o => if is_kind (bin_kind o) "XOR" then true
                     else if is_assign_kind (bin_kind o) then embrace (kprec (bin_kind o)) x        (* right-associative *)
                     else embrace_strict (kprec (bin_kind o)) x
  | TPost _ _ _ _ p => if is_kind (post_kind p) "RATE" then false else embrace (kprec (post_kind p)) x
  | TQ _ _ _ _ => embrace (kprec ite_kind) x
  | LB _ _ _ _ => embrace_strict (kprec "ARRAY") x
  | _ => false
  end.
Definition pR (f : frame bop uop pop fnid) (x : exprG) : bool :=
  match f with
  | FBin _ _ _ _ _ o => if is_kind (bin_kind o) "XOR" then true
                        else if is_assign_kind (bin_kind o) then embrace_strict (kprec (bin_kind o)) x
                        else embrace (kprec (bin_kind o)) x
  | FPre _ _ _ _ u => if is_quant u then false else embrace (kprec (pre_kind u)) x
  | FQ2 _ _ _ _ _ _ => embrace (kprec ite_kind) x
  | _ => false
  end.
Definition pI (x : exprG) : bool := embrace (kprec ite_kind) x.

Definition par (b : bool) (ts : list tokG) : list tokG := if b then paren _ _ _ _ ts else ts.
(* expression_t::print, case by case *)
Fixpoint pprint (e : exprG) : list tokG :=
  match e with
  | Atom _ _ _ _ n => [TAtom _ _ _ _ n]
  | Bin _ _ _ _ o l r =>
      par (pL (TOp _ _ _ _ o) l) (pprint l) ++ TOp _ _ _ _ o :: par (pR (FBin _ _ _ _ l o) r) (pprint r)
  | Un _ _ _ _ u x => TPre _ _ _ _ u :: par (pR (FPre _ _ _ _ u) x) (pprint x)
  | Post _ _ _ _ p x => par (pL (TPost _ _ _ _ p) x) (pprint x) ++ [TPost _ _ _ _ p]
  | Ite _ _ _ _ c a b =>
      par (pL (TQ _ _ _ _) c) (pprint c) ++ TQ _ _ _ _ :: par (pI a) (pprint a) ++ TC _ _ _ _ :: par (pR (FQ2 _ _ _ _ c a) b) (pprint b)
  | Idx _ _ _ _ a i => par (pL (LB _ _ _ _) a) (pprint a) ++ LB _ _ _ _ :: pprint i ++ [RB _ _ _ _]
  | Call _ _ _ _ f args =>
      pprint f ++ LP _ _ _ _ ::
      match args with
      | [] => []
      | x :: r => pprint x ++ (fix go (l : list exprG) := match l with [] => [] | y :: l' => TComma _ _ _ _ :: pprint y ++ go l' end) r
      end ++ [RP _ _ _ _]
  | Fn _ _ _ _ k a rest =>
      TFn _ _ _ _ k :: LP _ _ _ _ :: pprint a ++
      (fix go (l : list exprG) := match l with [] => [] | y :: l' => TComma _ _ _ _ :: pprint y ++ go l' end) rest ++ [RP _ _ _ _]
  end.

(* the provably safe rendering with the same extra parentheses *)
Definition flatP : exprG -> list tokG := flatX pL pR pI.

(* ---- decidable equality of token lists -------------------------------------------------------------- *)
Definition pair_eqb (a b : nat * nat) : bool := Nat.eqb (fst a) (fst b) && Nat.eqb (snd a) (snd b).
Definition tok_eqb (a b : tokG) : bool :=
  match a, b with
  | TAtom _ _ _ _ n, TAtom _ _ _ _ m => Nat.eqb n m
  | TOp _ _ _ _ o, TOp _ _ _ _ o' => pair_eqb (bop_idx o) (bop_idx o')
  | TPre _ _ _ _ u, TPre _ _ _ _ u' => pair_eqb (uop_idx u) (uop_idx u')
  | TPost _ _ _ _ p, TPost _ _ _ _ p' => pair_eqb (pop_idx p) (pop_idx p')
  | TQ _ _ _ _, TQ _ _ _ _ | TC _ _ _ _, TC _ _ _ _ | LP _ _ _ _, LP _ _ _ _ | RP _ _ _ _, RP _ _ _ _
  | LB _ _ _ _, LB _ _ _ _ | RB _ _ _ _, RB _ _ _ _ | TComma _ _ _ _, TComma _ _ _ _ => true
  | TFn _ _ _ _ k, TFn _ _ _ _ k' => String.eqb k k'
  | _, _ => false
  end.
Fixpoint toks_eqb (a b : list tokG) : bool :=
  match a, b with
  | [], [] => true
  | x :: a', y :: b' => tok_eqb x y && toks_eqb a' b'
  | _, _ => false
  end.
Lemma pair_eqb_eq a b : pair_eqb a b = true -> a = b.
Proof. destruct a, b; unfold pair_eqb; cbn. intros H. apply andb_true_iff in H as [H1 H2].
  apply Nat.eqb_eq in H1. apply Nat.eqb_eq in H2. congruence. Qed.
Lemma bop_idx_inj o o' : bop_idx o = bop_idx o' -> o = o'.
Proof. destruct o, o'; cbn; intros H; try reflexivity; discriminate H. Qed.
Lemma uop_idx_inj u u' : uop_idx u = uop_idx u' -> u = u'.
Proof. destruct u, u'; cbn; intros H; try reflexivity; try discriminate H; inversion H; reflexivity. Qed.
Lemma pop_idx_inj p p' : pop_idx p = pop_idx p' -> p = p'.
Proof. destruct p, p'; cbn; intros H; try reflexivity; try discriminate H; inversion H; reflexivity. Qed.
Lemma tok_eqb_eq a b : tok_eqb a b = true -> a = b.
Proof.
  destruct a, b; cbn; intros H; try discriminate H; try reflexivity.
  - apply Nat.eqb_eq in H. congruence.
  - apply pair_eqb_eq, bop_idx_inj in H. congruence.
  - apply pair_eqb_eq, uop_idx_inj in H. congruence.
  - apply pair_eqb_eq, pop_idx_inj in H. congruence.
  - apply String.eqb_eq in H. congruence.
Qed.
Lemma toks_eqb_eq a : forall b, toks_eqb a b = true -> a = b.
Proof.
  induction a as [|x a IH]; destruct b as [|y b]; cbn; intros H; try discriminate H; try reflexivity.
  apply andb_true_iff in H as [H1 H2]. apply tok_eqb_eq in H1. apply IH in H2. congruence.
Qed.

Definition covered (t : exprG) : bool := toks_eqb (pprint t) (flatP t).

Lemma covered_roundtrip t : covered t = true -> parses_toG (pprint t) t.
Proof.
  unfold covered. intros H. apply toks_eqb_eq in H. rewrite H.
  exact (roundtrip _ _ _ _ _ _ _ _ _ _ _ _ _ _ _ _ _ pL pR pI t).
Qed.
(* printing is idempotent through the parser: re-printing the re-parsed tree gives the same tokens *)
Lemma covered_idempotent t t' : covered t = true -> parses_toG (pprint t) t' -> pprint t' = pprint t.
Proof.
  intros H H'. pose proof (covered_roundtrip t H) as H1.
  rewrite (parses_to_unique _ _ _ _ _ _ _ _ _ _ _ _ _ _ _ _ _ _ _ _ H' H1). reflexivity.
Qed.
