(* C08 — parsed documents satisfy the structural invariants clients rely on.
   Only statements, each closed by a lemma of DocProofs.v / InstProofs.v, with the axioms it rests on. *)
From Coq Require Import List Arith Bool Permutation.
From Utap Require Import DocModel DocProofs InstModel InstProofs.
Import ListNotations.

(* Every edge has a source and a target that are locations or branchpoints of its own template — after ANY sequence of
   builder callbacks with arbitrary arguments (a superset of what any input, error recovery or exception can produce). *)
Theorem C08_edges_closed : forall cs : list cb, DocProofs.Inv (build cs b0).
Proof. exact DocProofs.inv_all. Qed.
Print Assumptions C08_edges_closed.

(* A recorded initial location is a location of the same template, after any callback sequence. *)
Theorem C08_init_among_locations : forall cs : list cb, InitInv (build cs b0).
Proof. exact init_all. Qed.
Print Assumptions C08_init_among_locations.

(* ... and the kind test of proc_location_init is what carries it: with the test proc_edge_begin uses for edge ends (location or branchpoint) the statement fails. *)
Theorem C08_init_kind_test_is_needed : exists cs : list cb, ~ InitInv (fold_left step_lax cs b0) /\ InitInv (build cs b0).
Proof. eexists. split; [exact (proj1 init_of_a_branchpoint_breaks_the_invariant) | exact (proj1 (proj2 init_of_a_branchpoint_breaks_the_invariant))]. Qed.
Print Assumptions C08_init_kind_test_is_needed.

(* Instances: after any sequence of template declarations, (partial) instantiations — including those rejected for a wrong
   number of arguments or an unknown template — and system-line entries, every instance and every process lists its
   unbound parameters first, has a type of that arity, and maps exactly its other parameters, each once. *)
Theorem C08_instances : forall os : list op, InstModel.Inv (run os st0).
Proof. exact InstProofs.inv_all. Qed.
Print Assumptions C08_instances.
Theorem C08_instance_statement : forall i : inst, inst_ok i ->
  (forall k p, k < i_unbound i -> nth_error (i_params i) k = Some p -> ~ In p (keys (i_map i)))
  /\ (forall k p, i_unbound i <= k -> nth_error (i_params i) k = Some p -> In p (keys (i_map i)))
  /\ length (i_map i) = length (i_params i) - i_unbound i
  /\ NoDup (keys (i_map i))
  /\ i_arity i = i_unbound i.
Proof. exact inst_ok_statement. Qed.
Print Assumptions C08_instance_statement.

(* Numbering: the n-th added location / branchpoint / edge gets number n. *)
Theorem C08_numbering_dense : forall n : nat, Nat.iter n add_nr [] = seq 0 n.
Proof. exact numbering_dense. Qed.
Print Assumptions C08_numbering_dense.

(* Back pointers: whatever is added to whichever container under whatever (possibly duplicate) name, every object's uid
   is a symbol whose user data is that object. *)
Theorem C08_back_pointers : forall ops : list (nat * nat), y_ok (fold_left (fun t o => y_add t (fst o) (snd o)) ops (mksymtab [] [])).
Proof. exact y_all. Qed.
Print Assumptions C08_back_pointers.

(* non-vacuity: a partial instantiation chain with a rejected instantiation in the middle *)
Example C08_example :
  let s := run [AddTemplate 2; AddInstance 0 1 [7; 8]; AddInstance 1 0 [9; 9]; AddInstance 1 0 [5]; AddProcess 2; AddProcess 1] st0 in
  map inst_okb (s_insts s) = [true; true; true] /\ map i_unbound (s_procs s) = [0; 1]
  /\ map (fun i => keys (i_map i)) (s_insts s) = [[]; [0; 1]; [0; 1; 2]].
Proof. vm_compute. repeat split. Qed.
