(* C01 / C16: the certificates of gen/Gen_LR.v (regenerated from parser.y on every run) are checked here by computation. *)
From Coq Require Import List ZArith PArith FMapPositive.
From Utap Require Import LRStack.
From Utap.gen Require Import Gen_LR.
Lemma cert_frag : check_all G_frag C_frag = true.
Proof. vm_compute. reflexivity. Qed.
Lemma cert_type : check_all G_type C_type = true.
Proof. vm_compute. reflexivity. Qed.
Lemma cert_frame : check_all G_frame C_frame = true.
Proof. vm_compute. reflexivity. Qed.
Lemma cert_fun : check_all G_fun C_fun = true.
Proof. vm_compute. reflexivity. Qed.
Lemma cert_templ : check_all G_templ C_templ = true.
Proof. vm_compute. reflexivity. Qed.
