(* Hand model of the {num} rule of src/lexer.l (integer literals).  `atoi` is libc and stays a
   parameter: the exactness theorem holds for *every* behaviour of atoi, because the rule re-prints
   the converted number and compares it with the spelled digits. *)
From Coq Require Import Decimal DecimalN ZArith NArith Bool Lia.
Local Open Scope Z_scope.

Inductive numtok := TNat (n : Z) | TPosNegMax | TOverflow.
Fixpoint strip0 (d : uint) : uint := match d with D0 d' => strip0 d' | _ => d end.   (* skip leading zeros *)
Definition wrap32 (z : Z) : Z := (z + 2^31) mod 2^32 - 2^31.                          (* (int) conversion *)
Definition int_min_digits : uint := D2 (D1 (D4 (D7 (D4 (D8 (D3 (D6 (D4 (D8 Nil))))))))).

Definition is_nil (d : uint) : bool := match d with Nil => true | _ => false end.

Section Lex.
Variable atoi : uint -> Z.
Definition lex_num (ds : uint) : numtok :=
  let s := strip0 ds in
  if is_nil s then TNat 0                                   (* only zeros were spelled *)
  else if uint_beq s int_min_digits then TPosNegMax
  else let n := wrap32 (atoi s) in
       (* snprintf("%d", n) equals s ?  a negative n prints a '-' and can never match *)
       if (0 <=? n) && uint_beq (N.to_uint (Z.to_N n)) s then TNat n else TOverflow.
Definition value (ds : uint) : Z := Z.of_N (N.of_uint ds).

Lemma value_strip0 ds : N.of_uint (strip0 ds) = N.of_uint ds.
Proof. induction ds; cbn; auto. Qed.
Lemma wrap32_range z : - 2^31 <= wrap32 z < 2^31.
Proof. unfold wrap32. pose proof (Z.mod_pos_bound (z + 2^31) (2^32) ltac:(lia)). lia. Qed.
Lemma is_nil_value d : is_nil d = true -> N.of_uint d = 0%N.
Proof. destruct d; cbn; congruence. Qed.

Lemma lex_num_exact ds n : lex_num ds = TNat n -> value ds = n /\ 0 <= n <= 2^31 - 1.
Proof.
  unfold lex_num, value. rewrite <- (value_strip0 ds). set (s := strip0 ds). cbv zeta.
  destruct (is_nil s) eqn:N0.
  { intros H; inversion H; subst. rewrite (is_nil_value _ N0). cbn. lia. }
  destruct (uint_beq s int_min_digits); [discriminate|].
  set (m := wrap32 (atoi s)). pose proof (wrap32_range (atoi s)) as R. fold m in R.
  destruct ((0 <=? m) && uint_beq (N.to_uint (Z.to_N m)) s) eqn:C; [|discriminate].
  intros H; inversion H; subst n; clear H.
  apply andb_true_iff in C as [Cp Ce]. apply internal_uint_dec_bl in Ce.
  rewrite <- Ce, Unsigned.of_to. lia.
Qed.
Lemma lex_num_posnegmax ds : lex_num ds = TPosNegMax -> value ds = 2^31.
Proof.
  unfold lex_num, value. rewrite <- (value_strip0 ds). set (s := strip0 ds). cbv zeta.
  destruct (is_nil s); [discriminate|].
  destruct (uint_beq s int_min_digits) eqn:C.
  - intros _. apply internal_uint_dec_bl in C. rewrite C. reflexivity.
  - destruct (_ && _); discriminate.
Qed.
(* with a libc whose atoi is exact on the int range, every literal in range is accepted *)
Lemma lex_num_complete ds : (forall s, value s <= 2^31 - 1 -> atoi s = value s) ->
  value ds <= 2^31 - 1 -> lex_num ds = TNat (value ds).
Proof.
  intros Hat Hv. unfold lex_num. pose proof (value_strip0 ds) as Hs. set (s := strip0 ds) in *. cbv zeta.
  assert (Hvs : value s = value ds) by (unfold value; now rewrite Hs).
  assert (Hnn : 0 <= value ds) by (unfold value; lia).
  destruct (is_nil s) eqn:N0.
  { unfold value. rewrite <- Hs, (is_nil_value _ N0). reflexivity. }
  destruct (uint_beq s int_min_digits) eqn:C.
  { apply internal_uint_dec_bl in C. rewrite C in Hvs. cbn in Hvs. lia. }
  rewrite Hat by lia. rewrite Hvs.
  assert (W : wrap32 (value ds) = value ds) by (unfold wrap32; rewrite Z.mod_small by lia; lia).
  rewrite W.
  assert (T : N.to_uint (Z.to_N (value ds)) = s).
  { unfold value. rewrite N2Z.id, <- Hs, Unsigned.to_of. subst s.
    clear -N0. induction ds; cbn in *; try reflexivity; try discriminate. apply IHds. exact N0. }
  rewrite T.
  assert (B : uint_beq s s = true) by (apply internal_uint_dec_lb; reflexivity).
  rewrite B. replace (0 <=? value ds) with true by lia. reflexivity.
Qed.
End Lex.
