(* C12: hand model of type_t::is_mutable / is_constant / get_sub (src/type.cpp) over the prefix
   structure of types, and of TypeChecker::isModifiableLValue over lvalue expressions. *)
From Coq Require Import List Bool Arith.
Import ListNotations.

Inductive ty :=
  | TBase                                   (* an unprefixed primitive: int, bool, clock, double, chan, scalar ... *)
  | TConst (t : ty)                         (* CONSTANT *)
  | TPrefix (t : ty)                        (* urgent, broadcast, committed, hybrid, meta *)
  | TRef (t : ty) | TLabel (t : ty) | TRange (t : ty)
  | TArray (elem : ty)
  | TRecord (fs : list ty)
  | TFunction | TProcess.

(* default case of both predicates: "size() > 0 && get(0).p()" / "size() == 0 || get(0).p()" *)
Fixpoint is_constant (t : ty) : bool :=
  match t with
  | TFunction | TProcess => false
  | TConst _ => true
  | TRecord fs => forallb is_constant fs
  | TBase => false
  | TPrefix a | TRef a | TLabel a | TRange a | TArray a => is_constant a
  end.
Fixpoint is_mutable (t : ty) : bool :=
  match t with
  | TFunction | TProcess | TConst _ => false
  | TRecord fs => forallb is_mutable fs
  | TBase => true
  | TPrefix a | TRef a | TLabel a | TRange a | TArray a => is_mutable a
  end.
(* is(ARRAY) / is(RECORD): through prefixes, RANGE, REF, LABEL *)
Fixpoint is_array (t : ty) : bool :=
  match t with TArray _ => true | TConst a | TPrefix a | TRef a | TLabel a | TRange a => is_array a | _ => false end.
Fixpoint is_record (t : ty) : bool :=
  match t with TRecord _ => true | TConst a | TPrefix a | TRef a | TLabel a | TRange a => is_record a | _ => false end.
(* get_sub(): REF and LABEL are dropped, prefixes are re-applied to the element type *)
Fixpoint get_sub (t : ty) : ty :=
  match t with
  | TRef a | TLabel a => get_sub a
  | TConst a => TConst (get_sub a)
  | TPrefix a => TPrefix (get_sub a)
  | TArray e => e
  | TRange a => a          (* not an array: get(0) *)
  | _ => t
  end.
Fixpoint get_field (t : ty) (i : nat) : ty :=
  match t with
  | TRef a | TLabel a => get_field a i
  | TConst a => TConst (get_field a i)
  | TPrefix a => TPrefix (get_field a i)
  | TRecord fs => nth i fs TBase
  | _ => t
  end.

(* ---- lvalues --------------------------------------------------------------------------------------- *)
Inductive lv :=
  | LId (t : ty)                      (* an identifier with the declared type of its symbol *)
  | LDot (process : bool) (b : lv)    (* b.field; process: b is a process *)
  | LIdx (b : lv)                     (* b[i] *)
  | LIte (a b : lv) (equiv : bool)    (* c ? a : b; equiv: the branch types are equivalent *)
  | LComma (b : lv)                   (* x, b *)
  | LWrite (target : lv)              (* ++t, --t, t = e, t op= e used as an lvalue *)
  | LOther.                           (* calls, constants, arithmetic ... *)
Fixpoint modifiable (l : lv) : bool :=
  match l with
  | LId t => is_mutable t
  | LDot p b => if p then false else modifiable b
  | LIdx b => modifiable b
  | LIte a b e => modifiable a && modifiable b && e
  | LComma b => modifiable b
  | LWrite _ => true
  | LOther => false
  end.
(* the declared types of the variables an lvalue may denote (get_symbols) *)
Fixpoint roots (l : lv) : list ty :=
  match l with
  | LId t => [t]
  | LDot _ b | LIdx b | LComma b | LWrite b => roots b
  | LIte a b _ => roots a ++ roots b
  | LOther => []
  end.
(* checkExpression visits sub-expressions first: every write inside an lvalue has itself been checked *)
Fixpoint writes_checked (l : lv) : bool :=
  match l with
  | LId _ | LOther => true
  | LDot _ b | LIdx b | LComma b => writes_checked b
  | LIte a b _ => writes_checked a && writes_checked b
  | LWrite t => modifiable t && writes_checked t
  end.

(* ---- theorems ------------------------------------------------------------------------------------------ *)
Section TyInd.
Variable P : ty -> Prop.
Hypothesis Hb : P TBase. Hypothesis Hc : forall t, P t -> P (TConst t). Hypothesis Hp : forall t, P t -> P (TPrefix t).
Hypothesis Hr : forall t, P t -> P (TRef t). Hypothesis Hl : forall t, P t -> P (TLabel t). Hypothesis Hg : forall t, P t -> P (TRange t).
Hypothesis Ha : forall t, P t -> P (TArray t). Hypothesis Hrec : forall fs, Forall P fs -> P (TRecord fs).
Hypothesis Hf : P TFunction. Hypothesis Hpr : P TProcess.
Fixpoint ty_ind2 (t : ty) : P t :=
  match t with
  | TBase => Hb | TConst a => Hc a (ty_ind2 a) | TPrefix a => Hp a (ty_ind2 a) | TRef a => Hr a (ty_ind2 a) | TLabel a => Hl a (ty_ind2 a)
  | TRange a => Hg a (ty_ind2 a) | TArray a => Ha a (ty_ind2 a)
  | TRecord fs => Hrec fs ((fix go (l : list ty) : Forall P l := match l with [] => Forall_nil P | x :: r => Forall_cons x (ty_ind2 x) (go r) end) fs)
  | TFunction => Hf | TProcess => Hpr
  end.
End TyInd.

(* a mutable type contains no CONSTANT on its spine, through arrays and into every field *)
Fixpoint const_free (t : ty) : bool :=
  match t with
  | TBase => true | TConst _ | TFunction | TProcess => false
  | TPrefix a | TRef a | TLabel a | TRange a | TArray a => const_free a
  | TRecord fs => forallb const_free fs
  end.
Theorem mutable_iff_const_free t : is_mutable t = const_free t.
Proof.
  induction t as [|t IH|t IH|t IH|t IH|t IH|t IH|fs IH| |] using ty_ind2; cbn; auto;
  try (induction IH as [|x l Hx Hl IHl]; cbn; [reflexivity|]; rewrite Hx, IHl; reflexivity).
Qed.
(* indexing an array never gains mutability: the element of a non-mutable array is not mutable *)
Theorem array_element_mutability t : is_array t = true -> is_mutable (get_sub t) = is_mutable t.
Proof. induction t using ty_ind2; cbn; intros A; try discriminate; auto. Qed.
(* selecting a field of a record under a CONSTANT prefix yields a non-mutable type *)
Fixpoint const_prefixed (t : ty) : bool :=
  match t with TConst _ => true | TPrefix a | TRef a | TLabel a => const_prefixed a | _ => false end.
Theorem const_record_field t i : const_prefixed t = true -> is_mutable (get_field t i) = false.
Proof. induction t using ty_ind2; cbn; intros C; try discriminate; auto. Qed.
Theorem const_array_element t : const_prefixed t = true -> is_mutable (get_sub t) = false.
Proof. induction t using ty_ind2; cbn; intros C; try discriminate; auto. Qed.
(* every field of a mutable record is mutable *)
Theorem mutable_record_fields fs i : is_mutable (TRecord fs) = true -> i < List.length fs -> is_mutable (nth i fs TBase) = true.
Proof.
  cbn. intros M L. rewrite forallb_forall in M. apply M. apply nth_In. exact L.
Qed.

(* an accepted write only ever reaches variables whose declared type is mutable *)
Theorem modifiable_roots_mutable l : writes_checked l = true -> modifiable l = true -> forall t, In t (roots l) -> is_mutable t = true.
Proof.
  induction l; cbn [writes_checked modifiable roots]; intros W M t0 I.
  - destruct I as [<-|[]]. exact M.
  - destruct process; [discriminate|]. eauto.
  - eauto.
  - apply andb_true_iff in W as [W1 W2]. apply andb_true_iff in M as [M Me]. apply andb_true_iff in M as [M1 M2].
    apply in_app_iff in I as [I|I]; eauto.
  - eauto.
  - apply andb_true_iff in W as [W1 W2]. eauto.
  - destruct I.
Qed.
Corollary accepted_write_targets_mutable target : writes_checked (LWrite target) = true -> forall t, In t (roots target) -> is_mutable t = true.
Proof. cbn. intros W. apply andb_true_iff in W as [M W]. exact (modifiable_roots_mutable target W M). Qed.
