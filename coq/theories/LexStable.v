(* C09: a blank written behind a token.  LexSep.v treats texts whose tokens are already separated by blanks; this file treats
   the step from a text written without blanks to one with: for every literal table without blanks inside literals and every
   text, the lexeme the scanner finds at a position is still found when a blank is inserted anywhere behind it - directly
   behind it when it is a token (other than a lone double quote), further back for every lexeme.  Every rule of the scanner is
   compared on the two texts; the lookahead of the continuation-line, string and floating-point rules is followed explicitly. *)
From Coq Require Import List Arith Bool Ascii String Lia.
From Utap Require Import CommentLex CommentLexProofs LexModel LexProofs LexSep.
Import ListNotations.

(* ---------- spans ---------- *)
Lemma spanp_inside p x : forall v v', spanp p (x ++ v) < List.length x -> spanp p (x ++ v') = spanp p (x ++ v).
Proof.
  induction x as [|a x IH]; intros v v' H; cbn in *; [lia|]. destruct (p a); [|reflexivity]. f_equal. apply IH. lia.
Qed.
Lemma spanp_le p x c : forall v, p c = false -> spanp p (x ++ v) <= List.length x -> spanp p (x ++ c :: v) = spanp p (x ++ v).
Proof.
  induction x as [|a x IH]; intros v Hc H; cbn in *.
  - rewrite Hc. lia.
  - destruct (p a); [|reflexivity]. f_equal. apply IH; [exact Hc | lia].
Qed.
Lemma spanp_bound p s : spanp p s <= List.length s.
Proof. induction s as [|a s IH]; cbn; [lia|]. destruct (p a); lia. Qed.
(* what is left behind a run of blanks does not depend on one more blank in the run *)
Lemma skip_blanks_insert x c : forall v, is_blank c = true -> forallb is_blank x = true ->
  skipn (spanp is_blank (x ++ c :: v)) (x ++ c :: v) = skipn (spanp is_blank (x ++ v)) (x ++ v) /\
  spanp is_blank (x ++ c :: v) = S (spanp is_blank (x ++ v)).
Proof.
  induction x as [|a x IH]; intros v Hc Hx; cbn [app].
  - cbn [spanp]. rewrite Hc. cbn [skipn]. split; reflexivity.
  - cbn in Hx. apply andb_prop in Hx as [Ha Hx]. cbn [spanp]. rewrite Ha. cbn [skipn]. destruct (IH v Hc Hx) as [E1 E2]. split; [exact E1 | now rewrite E2].
Qed.
Lemma forallb_false_span p x : forallb p x = false -> forall v, spanp p (x ++ v) < List.length x.
Proof.
  induction x as [|a x IH]; cbn; [discriminate|]. intros H v. destruct (p a); cbn in H; [specialize (IH H v); lia | lia].
Qed.
Lemma skipn_inside {A} (x : list A) : forall k, k < List.length x -> exists y ys, forall v' : list A, skipn k (x ++ v') = y :: ys ++ v'.
Proof.
  induction x as [|a x IH]; intros k H; cbn in H; [lia|]. destruct k as [|k].
  - exists a, x. intro v'. reflexivity.
  - destruct (IH k ltac:(lia)) as (y & ys & E). exists y, ys. intro v'. cbn. apply E.
Qed.

(* ---------- the rules one by one: x ++ v against x ++ c :: v for a blank c ---------- *)
Section Rules.
  Variable c : ascii.
  Hypothesis Hc : is_blank c = true.

  Lemma m_blank_stable x v : m_blank (x ++ v) < List.length x -> m_blank (x ++ c :: v) = m_blank (x ++ v).
  Proof. unfold m_blank. intro H. apply spanp_inside. exact H. Qed.
  Lemma m_nl_stable x v : m_nl (x ++ v) <= List.length x -> m_nl (x ++ c :: v) = m_nl (x ++ v).
  Proof. unfold m_nl. intro H. apply spanp_le; [|exact H]. now destruct (blank_facts c Hc) as (_ & _ & _ & -> & _). Qed.
  Lemma m_num_stable x v : m_num (x ++ v) <= List.length x -> m_num (x ++ c :: v) = m_num (x ++ v).
  Proof. unfold m_num. intro H. apply spanp_le; [|exact H]. now destruct (blank_facts c Hc) as (_ & -> & _). Qed.
  Lemma m_ident_stable x v : x <> [] -> m_ident (x ++ v) <= List.length x -> m_ident (x ++ c :: v) = m_ident (x ++ v).
  Proof.
    destruct x as [|a x]; [contradiction|]. intros _. cbn. destruct (is_alpha a); [|reflexivity]. intro H. f_equal.
    apply spanp_le; [now destruct (blank_facts c Hc) as (-> & _) | lia].
  Qed.
  Lemma m_any_stable x v : x <> [] -> m_any (x ++ c :: v) = m_any (x ++ v).
  Proof. destruct x; [contradiction | reflexivity]. Qed.
  Lemma m_open_stable x v : x <> [] -> m_open (x ++ v) < List.length x -> m_open (x ++ c :: v) = m_open (x ++ v).
  Proof.
    destruct (blank_facts c Hc) as (_ & _ & _ & _ & _ & _ & _ & _ & _ & _ & C42).
    destruct x as [|a [|b x]]; [contradiction | |]; intros _; unfold m_open, open_mark; cbn [app starts List.length].
    - rewrite star_code, C42. rewrite !andb_false_r, ?andb_false_l. destruct v as [|d v]; [destruct (Ascii.eqb _ a); cbn; lia|].
      destruct (Ascii.eqb _ a && (Ascii.eqb _ d && true)); [lia | reflexivity].
    - reflexivity.
  Qed.
  Lemma m_linecomment_stable x v : x <> [] -> m_linecomment (x ++ v) < List.length x -> m_linecomment (x ++ c :: v) = m_linecomment (x ++ v).
  Proof.
    destruct (blank_facts c Hc) as (_ & _ & _ & _ & _ & _ & _ & C47 & _).
    destruct x as [|a [|b x]]; [contradiction | |]; intros _; cbn [app m_linecomment List.length].
    - rewrite C47, andb_false_r. destruct v as [|d v]; [reflexivity|]. destruct ((code a =? 47) && (code d =? 47)); [lia | reflexivity].
    - destruct ((code a =? 47) && (code b =? 47)); [|reflexivity]. intro H. f_equal. apply spanp_inside. lia.
  Qed.
  Lemma m_crlf_stable : forall f x v, m_crlf f (x ++ v) <= List.length x -> List.length (x ++ v) <= f -> m_crlf (S f) (x ++ c :: v) = m_crlf f (x ++ v).
  Proof.
    destruct (blank_facts c Hc) as (_ & _ & _ & Cn & _ & _ & _ & _ & C13 & _).
    assert (code c =? 10 = false) as C10 by exact Cn.
    induction f as [|f IH]; intros x v Hm Hf.
    - destruct x as [|a x]; [|cbn in Hf; lia]. destruct v; [|cbn in Hf; lia]. reflexivity.
    - destruct x as [|a [|b x]]; cbn [app].
      + cbn [m_crlf]. rewrite C13. cbn [andb]. cbn [app List.length] in Hm. destruct v as [|d [|e v]]; try reflexivity.
        cbn [m_crlf] in Hm. destruct ((code d =? 13) && (code e =? 10)); [lia | reflexivity].
      + cbn [m_crlf]. rewrite C10, andb_false_r. cbn [app List.length m_crlf] in Hm. destruct v as [|d v]; [reflexivity|].
        destruct ((code a =? 13) && (code d =? 10)); [lia | reflexivity].
      + cbn [m_crlf]. cbn [app List.length m_crlf] in Hm, Hf. destruct ((code a =? 13) && (code b =? 10)); [|reflexivity]. f_equal.
        destruct f as [|f]; [cbn in Hf; lia|]. apply IH; [lia | cbn in Hf |- *; lia].
  Qed.
  Lemma m_cont_stable x v : x <> [] -> m_cont (x ++ v) < List.length x -> m_cont (x ++ c :: v) = m_cont (x ++ v).
  Proof.
    destruct x as [|a x]; [contradiction|]. intros _. cbn [app m_cont List.length]. destruct (code a =? 92); [|reflexivity].
    destruct (forallb is_blank x) eqn:Hx.
    - destruct (skip_blanks_insert x c v Hc Hx) as [E1 E2]. rewrite E1, E2. intro H.
      destruct (skipn (spanp is_blank (x ++ v)) (x ++ v)) as [|d r]; [reflexivity|]. destruct (is_nl d); [|reflexivity].
      pose proof (spanp_all _ _ Hx) as Ha. assert (List.length x <= spanp is_blank (x ++ v)); [|lia].
      clear -Hx. induction x as [|y x IH]; cbn; [lia|]. cbn in Hx. apply andb_prop in Hx as [-> Hx]. specialize (IH Hx). lia.
    - intros _. pose proof (forallb_false_span _ _ Hx) as Hs. rewrite (spanp_inside _ x v (c :: v) (Hs v)).
      destruct (skipn_inside x (spanp is_blank (x ++ v)) (Hs v)) as (y & ys & E). now rewrite !E.
  Qed.
  (* a double quote standing alone is the one lexeme a following blank can change: with the next double quote it makes a string *)
  Lemma m_string_stable x v : x <> [] -> (forall a, x = [a] -> (code a =? 34) = false) -> m_string (x ++ v) <= List.length x -> m_string (x ++ c :: v) = m_string (x ++ v).
  Proof.
    destruct (blank_facts c Hc) as (_ & _ & _ & _ & _ & _ & _ & _ & _ & C34 & _).
    destruct x as [|a x]; [contradiction|]. intros _ Hq. cbn [app m_string List.length]. destruct (code a =? 34) eqn:Ea; [|reflexivity].
    assert (x <> []) as Hx by (intros ->; specialize (Hq a eq_refl); congruence). clear Hq.
    set (p := fun c0 : ascii => negb (code c0 =? 34)).
    destruct (forallb p x) eqn:Hall.
    - (* no closing quote inside x *)
      assert (List.length x <= spanp p (x ++ v)) as Hlo.
      { clear -Hall. induction x as [|y x IH]; cbn; [lia|]. cbn in Hall. apply andb_prop in Hall as [-> Hall]. specialize (IH Hall). lia. }
      assert (0 < spanp p (x ++ v)) as Hpos by (destruct x; [contradiction | cbn [List.length] in Hlo; lia]).
      intro H. destruct (Nat.ltb_spec 0 (spanp p (x ++ v))) as [_|]; [|lia].
      destruct (skipn (spanp p (x ++ v)) (x ++ v)) as [|d r] eqn:Es; [|lia].
      (* all of x ++ v is quote-free; so is x ++ c :: v *)
      assert (forallb p (x ++ v) = true) as Hxv.
      { clear -Es. revert Es. generalize (x ++ v). intro s. induction s as [|y s IH]; cbn; [reflexivity|]. destruct (p y) eqn:Ey; cbn; [apply IH | discriminate]. }
      assert (forallb p (x ++ c :: v) = true) as Hxcv.
      { rewrite forallb_app in *. apply andb_prop in Hxv as [-> Hv]. cbn. unfold p at 1. rewrite C34. cbn. exact Hv. }
      rewrite (spanp_all _ _ Hxcv). rewrite skipn_all. destruct (0 <? _); reflexivity.
    - intros _. pose proof (forallb_false_span _ _ Hall) as Hs. rewrite (spanp_inside _ x v (c :: v) (Hs v)).
      destruct (skipn_inside x (spanp p (x ++ v)) (Hs v)) as (y & ys & E). now rewrite !E.
  Qed.
End Rules.

Lemma blank_signs c : is_blank c = true -> ((code c =? 43) || (code c =? 45)) = false.
Proof. all_chars c. Qed.
Lemma skipn_app_le {A} (x v : list A) n : n <= List.length x -> skipn n (x ++ v) = skipn n x ++ v.
Proof. intro H. rewrite skipn_app. replace (n - List.length x) with 0 by lia. reflexivity. Qed.

Lemma m_exp_small s : m_exp s <= 1 -> m_exp s = 0.
Proof.
  destruct s as [|a [|d r]]; cbn [m_exp]; try lia.
  - destruct (_ || _); reflexivity.
  - destruct ((code a =? 101) || (code a =? 69)); [|reflexivity].
    destruct (((code d =? 43) || (code d =? 45)) && (0 <? spanp is_digit r)); [lia|].
    destruct (Nat.ltb_spec 0 (spanp is_digit (d :: r))); lia.
Qed.

Section Rules2.
  Variable c : ascii.
  Hypothesis Hc : is_blank c = true.

  Lemma m_frac_stable u v : m_frac (u ++ v) <= List.length u -> m_frac (u ++ c :: v) = m_frac (u ++ v).
  Proof.
    destruct (blank_facts c Hc) as (_ & Cd & _ & _ & C46 & _).
    destruct u as [|a u]; cbn [app m_frac List.length].
    - rewrite C46. cbn [andb]. intro H. lia.
    - destruct (code a =? 46); [|reflexivity]. cbn [andb]. intro H.
      destruct (Nat.le_gt_cases (spanp is_digit (u ++ v)) (List.length u)) as [Hle|Hgt].
      + now rewrite (spanp_le is_digit u c v Cd Hle).
      + destruct (Nat.ltb_spec 0 (spanp is_digit (u ++ v))); lia.
  Qed.
  Lemma m_exp_stable u v : m_exp (u ++ v) <= List.length u -> m_exp (u ++ c :: v) = m_exp (u ++ v).
  Proof.
    destruct (blank_facts c Hc) as (_ & Cd & _ & _ & _ & Ce & _). pose proof (blank_signs c Hc) as Cs.
    destruct u as [|a [|d u]]; cbn [app m_exp List.length].
    - rewrite Ce. intro H. lia.
    - intro H. assert (m_exp (a :: v) = 0) as E by (apply m_exp_small; exact H). transitivity 0; [|symmetry; exact E].
      destruct ((code a =? 101) || (code a =? 69)); [|reflexivity]. rewrite Cs. cbn [andb]. cbn [spanp]. rewrite Cd. reflexivity.
    - destruct ((code a =? 101) || (code a =? 69)); [|reflexivity].
      destruct ((code d =? 43) || (code d =? 45)) eqn:Es; cbn [andb].
      + intro H. destruct (Nat.le_gt_cases (spanp is_digit (u ++ v)) (List.length u)) as [Hle|Hgt].
        * rewrite (spanp_le is_digit u c v Cd Hle). cbn [spanp].
          assert (is_digit d = false) as -> by (revert Es; clear; all_chars d). reflexivity.
        * destruct (Nat.ltb_spec 0 (spanp is_digit (u ++ v))); lia.
      + intro H. change (d :: u ++ c :: v) with ((d :: u) ++ c :: v). change (d :: u ++ v) with ((d :: u) ++ v) in *.
        destruct (Nat.le_gt_cases (spanp is_digit ((d :: u) ++ v)) (List.length (d :: u))) as [Hle|Hgt].
        * now rewrite (spanp_le is_digit (d :: u) c v Cd Hle).
        * cbn [List.length] in Hgt. destruct (Nat.ltb_spec 0 (spanp is_digit ((d :: u) ++ v))); lia.
  Qed.
  Lemma m_float_stable x v : m_float (x ++ v) <= List.length x -> m_float (x ++ c :: v) = m_float (x ++ v).
  Proof.
    destruct (blank_facts c Hc) as (_ & Cd & _).
    unfold m_float. set (n := spanp is_digit (x ++ v)).
    destruct (Nat.eqb_spec n 0) as [E0|Hn].
    - intros _. assert (spanp is_digit (x ++ c :: v) = n) as -> by (apply spanp_le; [exact Cd | fold n; lia]). now rewrite E0.
    - intro H.
      assert (n <= List.length x) as Hnx by lia.
      assert (spanp is_digit (x ++ c :: v) = n) as -> by (apply spanp_le; [exact Cd | exact Hnx]).
      destruct (Nat.eqb_spec n 0); [contradiction|].
      rewrite !(skipn_app_le x _ n Hnx) in *.
      set (f := m_frac (skipn n x ++ v)) in *.
      assert (f <= List.length (skipn n x)) as Hf by (rewrite skipn_length; lia).
      rewrite (m_frac_stable _ _ Hf). fold f.
      assert (n + f <= List.length x) as Hnf by lia.
      rewrite !(skipn_app_le x _ (n + f) Hnf) in *.
      assert (m_exp (skipn (n + f) x ++ v) <= List.length (skipn (n + f) x)) as He by (rewrite skipn_length; lia).
      now rewrite (m_exp_stable _ _ He).
  Qed.
End Rules2.

Section Literals.
  Variable c : ascii.
  Hypothesis Hc : is_blank c = true.
  Lemma starts_stable t : blank_free t = true -> forall x v, (starts t (x ++ v) = true -> List.length t <= List.length x) -> starts t (x ++ c :: v) = starts t (x ++ v).
  Proof.
    induction t as [|a t IH]; intros Hf x v H; [destruct x; reflexivity|]. cbn in Hf. apply andb_prop in Hf as [Ha Hf].
    destruct x as [|y x]; cbn [app starts].
    - destruct (Ascii.eqb_spec a c) as [->|_]; [rewrite Hc in Ha; discriminate|]. cbn [andb].
      destruct v as [|d v]; [reflexivity|]. cbn [app] in H. destruct (starts (a :: t) (d :: v)) eqn:E; [specialize (H eq_refl); cbn in H; lia|].
      cbn [starts] in E. now rewrite E.
    - destruct (Ascii.eqb a y) eqn:E; [|reflexivity]. cbn [andb]. apply IH; [exact Hf|]. intro Hs. cbn [app starts] in H. rewrite E, Hs in H. specialize (H eq_refl). cbn in H. lia.
  Qed.
  Lemma best_lit_stable ls x v : (forall t tok, In (t, tok) ls -> blank_free (list_ascii_of_string t) = true) ->
    (forall t tok, In (t, tok) ls -> starts (list_ascii_of_string t) (x ++ v) = true -> List.length (list_ascii_of_string t) <= List.length x) ->
    forall best, best_lit ls (x ++ c :: v) best = best_lit ls (x ++ v) best.
  Proof.
    induction ls as [|[t tok] ls IH]; intros Hf Hb best; [reflexivity|]. cbn [best_lit].
    rewrite (starts_stable _ (Hf t tok (or_introl eq_refl)) x v (Hb t tok (or_introl eq_refl))).
    apply IH; intros t' tok' H; [apply (Hf t' tok') | apply (Hb t' tok')]; right; exact H.
  Qed.
End Literals.

(* ---------- the lexeme at the head of a text ---------- *)
Section Lexeme.
  Variable literals : list (string * string).
  Hypothesis Hbf : table_blank_free literals.
  Variable c : ascii.
  Hypothesis Hc : is_blank c = true.

  (* no rule matches more than the lexeme taken *)
  Lemma cand_le a s l' k' : In (l', k') (candidates literals (a :: s)) -> k' <= lexeme_len (lex1 literals (a :: s)).
  Proof.
    intro Hin. unfold lex1. set (cs := candidates literals (a :: s)) in *. pose proof (pick_max cs Eof 0 l' k' Hin) as Hm.
    destruct (pick_in cs Eof 0) as [E|Hi]; [rewrite E in *; cbn in *; lia|].
    destruct (pick cs Eof 0) as [l k] eqn:Ep. cbn [fst snd] in *.
    destruct (Nat.eq_dec k 0) as [->|Hk]; [lia|]. rewrite (candidates_len literals (a :: s) l k Hi ltac:(lia)). exact Hm.
  Qed.
  (* a rule that matches as much as the lexeme taken, and more than every rule written before it, is the one taken *)
  Lemma first_wins a s pre l0 k0 post : candidates literals (a :: s) = pre ++ (l0, k0) :: post ->
    (forall l' k', In (l', k') pre -> k' < k0) -> k0 = lexeme_len (lex1 literals (a :: s)) -> 0 < k0 -> lex1 literals (a :: s) = l0.
  Proof.
    intros E Hpre Hk Hpos. unfold lex1 at 1. rewrite E. rewrite (pick_first pre l0 k0 post Eof 0 Hpre); [reflexivity | | exact Hpos].
    intros l' k' Hin. rewrite Hk. apply (cand_le a s l' k'). rewrite E. apply in_or_app. right. right. exact Hin.
  Qed.

  Lemma m_lit_stable x v : (forall tok n, m_lit literals (x ++ v) = Some (tok, n) -> n <= List.length x) -> m_lit literals (x ++ c :: v) = m_lit literals (x ++ v).
  Proof.
    intro Hn. unfold m_lit. apply best_lit_stable; [exact Hc | exact Hbf|]. intros t tok Hin Hs.
    pose proof (best_lit_spec literals (x ++ v) None ltac:(discriminate)) as Hb. fold (m_lit literals (x ++ v)) in Hb.
    destruct (m_lit literals (x ++ v)) as [[tok1 n1]|] eqn:El.
    - destruct Hb as (_ & H2 & _). specialize (H2 t tok Hin Hs). specialize (Hn tok1 n1 eq_refl). lia.
    - destruct Hb as [_ H2]. rewrite (H2 t tok Hin Hs). lia.
  Qed.

  (* all rules agree on the two texts as soon as none of them reaches the inserted blank *)
  Lemma candidates_stable x v : x <> [] -> let s := x ++ v in
    m_cont s < List.length x -> m_linecomment s < List.length x -> m_blank s < List.length x -> m_open s < List.length x ->
    m_nl s <= List.length x -> m_crlf (List.length s) s <= List.length x -> (forall tok n, m_lit literals s = Some (tok, n) -> n <= List.length x) ->
    m_ident s <= List.length x -> m_num s <= List.length x -> m_float s <= List.length x -> m_string s <= List.length x ->
    (forall a, x = [a] -> (code a =? 34) = false) ->
    candidates literals (x ++ c :: v) = candidates literals (x ++ v).
  Proof.
    intros Hx s H1 H2 H3 H4 H5 H6 H7 H8 H9 H10 H11 Hq. unfold candidates. subst s.
    rewrite (m_cont_stable c Hc x v Hx H1), (m_linecomment_stable c Hc x v Hx H2), (m_blank_stable c x v H3), (m_open_stable c Hc x v Hx H4), (m_nl_stable c Hc x v H5).
    replace (List.length (x ++ c :: v)) with (S (List.length (x ++ v))) by (rewrite !app_length; cbn; lia).
    rewrite (m_crlf_stable c Hc _ x v H6 (le_n _)).
    rewrite (m_lit_stable x v H7), (m_ident_stable c Hc x v Hx H8), (m_num_stable c Hc x v H9), (m_float_stable c Hc x v H10), (m_any_stable c x v Hx),
            (m_string_stable c Hc x v Hx Hq H11).
    reflexivity.
  Qed.

  (* a blank further back than the end of the lexeme changes nothing, whatever the lexeme is *)
  Theorem lex1_blank_further_back x v : lexeme_len (lex1 literals (x ++ v)) < List.length x -> lex1 literals (x ++ c :: v) = lex1 literals (x ++ v).
  Proof.
    intro Hlen. destruct x as [|a x]; [cbn in Hlen; lia|].
    assert (forall l' k', In (l', k') (candidates literals ((a :: x) ++ v)) -> k' < List.length (a :: x)) as B.
    { intros l' k' Hin. eapply Nat.le_lt_trans; [apply (cand_le a (x ++ v) l' k' Hin) | exact Hlen]. }
    assert (candidates literals ((a :: x) ++ c :: v) = candidates literals ((a :: x) ++ v)) as E.
    { apply candidates_stable; try discriminate.
      all: try (match goal with |- le _ _ => apply Nat.lt_le_incl end).
      all: try (match goal with |- ?m < _ =>
                  let fin := (unfold candidates; rewrite !in_app_iff; cbn [In]; tauto) in
                  first [apply (B (Skip SCont m)); fin | apply (B (Skip SLineComment m)); fin | apply (B (Skip SBlank m)); fin | apply (B Comment); fin | apply (B (Tok KLf m)); fin
                        | apply (B (Tok KCrLf m)); fin | apply (B (Tok KIdent m)); fin | apply (B (Tok KNum m)); fin | apply (B (Tok KFloat m)); fin | apply (B (Tok KString m)); fin] end).
      - intros tok n El. apply Nat.lt_le_incl. apply (B (Tok (KLit tok) n)). unfold candidates. rewrite El, !in_app_iff. cbn [In]. tauto.
      - intros a0 [= -> ->]. pose proof (lex1_progress literals a0 v). cbn [app List.length] in Hlen. lia. }
    cbn [app] in *. unfold lex1. now rewrite E.
  Qed.

  (* a blank directly behind a token: the token stays.  (The two line-end rules are treated like blanks by the scanner, and a lone
     double quote is excepted: followed by a blank and another quote it would open a string.) *)
  Theorem lex1_blank_behind_token x v k : lex1 literals (x ++ v) = Tok k (List.length x) -> k <> KLf -> k <> KCrLf ->
    (forall a, x = [a] -> (code a =? 34) = false) -> lex1 literals (x ++ c :: v) = Tok k (List.length x).
  Proof.
    intros H Hlf Hcrlf Hq. destruct x as [|a x].
    - destruct v as [|d v]; [discriminate|]. pose proof (lex1_progress literals d v) as Hp. cbn [app] in H. rewrite H in Hp. cbn in Hp. lia.
    - set (s0 := x ++ v). assert (Hs : (a :: x) ++ v = a :: s0) by reflexivity. rewrite Hs in H.
      set (N := List.length (a :: x)) in *.
      assert (forall l' k', In (l', k') (candidates literals (a :: s0)) -> k' <= N) as B.
      { intros l' k' Hin. pose proof (cand_le a s0 l' k' Hin) as Hle. rewrite H in Hle. exact Hle. }
      assert (0 < N) as HN by (unfold N; cbn; lia).
      assert (lexeme_len (lex1 literals (a :: s0)) = N) as HlN by (now rewrite H).
      assert (candidates literals (a :: s0) =
              (Skip SCont (m_cont (a :: s0)), m_cont (a :: s0)) :: (Skip SLineComment (m_linecomment (a :: s0)), m_linecomment (a :: s0)) :: (Skip SBlank (m_blank (a :: s0)), m_blank (a :: s0))
              :: (Comment, m_open (a :: s0)) :: skipn 4 (candidates literals (a :: s0))) as Ecs by reflexivity.
      assert (In (Skip SCont (m_cont (a :: s0)), m_cont (a :: s0)) (candidates literals (a :: s0))) as I1 by (rewrite Ecs; cbn [In]; tauto).
      assert (In (Skip SLineComment (m_linecomment (a :: s0)), m_linecomment (a :: s0)) (candidates literals (a :: s0))) as I2 by (rewrite Ecs; cbn [In]; tauto).
      assert (In (Skip SBlank (m_blank (a :: s0)), m_blank (a :: s0)) (candidates literals (a :: s0))) as I3 by (rewrite Ecs; cbn [In]; tauto).
      assert (In (Comment, m_open (a :: s0)) (candidates literals (a :: s0))) as I4 by (rewrite Ecs; cbn [In]; tauto).
      apply B in I1, I2, I3, I4.
      remember (m_cont (a :: s0)) as m1 eqn:E1. remember (m_linecomment (a :: s0)) as m2 eqn:E2. remember (m_blank (a :: s0)) as m3 eqn:E3. remember (m_open (a :: s0)) as m4 eqn:E4.
      remember (skipn 4 (candidates literals (a :: s0))) as post eqn:Epost.
      assert (m1 < N) as B1.
      { destruct (Nat.lt_ge_cases m1 N) as [|Hge]; [assumption|]. exfalso.
        pose proof (first_wins a s0 [] (Skip SCont m1) m1 _ Ecs ltac:(intros ? ? []) ltac:(rewrite HlN; lia) ltac:(lia)) as W. rewrite H in W. discriminate. }
      assert (m2 < N) as B2.
      { destruct (Nat.lt_ge_cases m2 N) as [|Hge]; [assumption|]. exfalso.
        pose proof (first_wins a s0 [(Skip SCont m1, m1)] (Skip SLineComment m2) m2 _ Ecs ltac:(intros ? ? [Ei|[]]; injection Ei as <- <-; lia) ltac:(rewrite HlN; lia) ltac:(lia)) as W.
        rewrite H in W. discriminate. }
      assert (m3 < N) as B3.
      { destruct (Nat.lt_ge_cases m3 N) as [|Hge]; [assumption|]. exfalso.
        pose proof (first_wins a s0 [(Skip SCont m1, m1); (Skip SLineComment m2, m2)] (Skip SBlank m3) m3 _ Ecs
                      ltac:(intros ? ? [Ei|[Ei|[]]]; injection Ei as <- <-; lia) ltac:(rewrite HlN; lia) ltac:(lia)) as W.
        rewrite H in W. discriminate. }
      assert (m4 < N) as B4.
      { destruct (Nat.lt_ge_cases m4 N) as [|Hge]; [assumption|]. exfalso.
        pose proof (first_wins a s0 [(Skip SCont m1, m1); (Skip SLineComment m2, m2); (Skip SBlank m3, m3)] Comment m4 _ Ecs
                      ltac:(intros ? ? [Ei|[Ei|[Ei|[]]]]; injection Ei as <- <-; lia) ltac:(rewrite HlN; lia) ltac:(lia)) as W.
        rewrite H in W. discriminate. }
      subst m1 m2 m3 m4. clear Ecs Epost post.
      assert (candidates literals ((a :: x) ++ c :: v) = candidates literals ((a :: x) ++ v)) as E.
      { apply candidates_stable; try discriminate; rewrite ?Hs; fold N; try assumption.
        all: try (match goal with |- ?m <= _ =>
                    let fin := (unfold candidates; rewrite !in_app_iff; cbn [In]; tauto) in
                    first [apply (B (Tok KLf m)); fin | apply (B (Tok KCrLf m)); fin | apply (B (Tok KIdent m)); fin | apply (B (Tok KNum m)); fin | apply (B (Tok KFloat m)); fin | apply (B (Tok KString m)); fin] end).
        intros tok n El. apply (B (Tok (KLit tok) n)). unfold candidates. rewrite El, !in_app_iff. cbn [In]. tauto. }
      rewrite Hs in E. change ((a :: x) ++ c :: v) with (a :: x ++ c :: v) in *. unfold lex1 in *. rewrite E. exact H.
  Qed.
End Lexeme.

(* ---------- block comments ---------- *)
Lemma span_inside y : forall r r', span (y ++ r) < List.length y -> span (y ++ r') = span (y ++ r).
Proof. induction y as [|a y IH]; intros r r' H; cbn in *; [lia|]. destruct (is_sep a); [reflexivity|]. f_equal. apply IH. lia. Qed.
Lemma scan_shorter0 fuel s rest : scan fuel s = Closed rest -> List.length rest <= List.length s.
Proof. intro H. destruct (scan_ends_behind_terminator fuel s rest H) as (n & -> & _). rewrite skipn_length. lia. Qed.
Lemma skipn_app_le' {A} (x v : list A) n : n <= List.length x -> skipn n (x ++ v) = skipn n x ++ v.
Proof. intro H. rewrite skipn_app. replace (n - List.length x) with 0 by lia. reflexivity. Qed.

(* a comment that ends inside the text before the inserted blank ends at the same place *)
Lemma scan_stable c x v : is_blank c = true -> x <> [] -> forall f y,
  scan f (y ++ x ++ v) = Closed (x ++ v) -> scan (S f) (y ++ x ++ c :: v) = Closed (x ++ c :: v).
Proof.
  intros Hc Hx. assert (blank_free expect_mark = true) as Be by reflexivity. assert (blank_free close_mark = true) as Bc by reflexivity.
  induction f as [|f IH]; intros y H; [discriminate|].
  destruct (y ++ x ++ v) as [|a0 s0] eqn:Es; [discriminate|]. rewrite <- Es in H.
  assert (0 < List.length x) as Hxl by (destruct x; [contradiction | cbn; lia]).
  assert (Hy : forall k, List.length (x ++ v) <= List.length (skipn k (y ++ x ++ v)) -> k <= List.length y).
  { intros k Hk. rewrite skipn_length in Hk. rewrite !app_length in Hk. lia. }
  change (scan (S f) (y ++ x ++ v)) with
    (match y ++ x ++ v with [] => Unclosed | _ :: r => if starts expect_mark (y ++ x ++ v) then scan f (skipn (7 + span (skipn 7 (y ++ x ++ v))) (y ++ x ++ v))
                                                   else if starts close_mark (y ++ x ++ v) then Closed (skipn 2 (y ++ x ++ v)) else scan f r end) in H.
  assert (Es' : exists a1 s1, y ++ x ++ c :: v = a1 :: s1) by (destruct y as [|a y]; [destruct x as [|a x]; [contradiction | exists a, (x ++ c :: v); reflexivity] | exists a, (y ++ x ++ c :: v); reflexivity]).
  destruct Es' as (a1 & s1 & Es').
  change (scan (S (S f)) (y ++ x ++ c :: v)) with
    (match y ++ x ++ c :: v with [] => Unclosed | _ :: r => if starts expect_mark (y ++ x ++ c :: v) then scan (S f) (skipn (7 + span (skipn 7 (y ++ x ++ c :: v))) (y ++ x ++ c :: v))
                                                        else if starts close_mark (y ++ x ++ c :: v) then Closed (skipn 2 (y ++ x ++ c :: v)) else scan (S f) r end).
  rewrite Es in H. rewrite Es'. rewrite <- Es in H. rewrite <- Es'.
  replace (y ++ x ++ c :: v) with ((y ++ x) ++ c :: v) by (now rewrite <- app_assoc).
  replace (y ++ x ++ v) with ((y ++ x) ++ v) in * by (now rewrite <- app_assoc).
  destruct (starts expect_mark ((y ++ x) ++ v)) eqn:He.
  - (* an EXPECT: word: it ends inside y *)
    pose proof (scan_shorter0 _ _ _ H) as Hl. apply Hy in Hl.
    set (k := 7 + span (skipn 7 ((y ++ x) ++ v))) in *.
    assert (7 <= List.length y) as H7 by lia.
    rewrite (starts_stable c Hc expect_mark Be (y ++ x) v ltac:(intros _; rewrite app_length; cbn; lia)), He.
    assert (span (skipn 7 ((y ++ x) ++ c :: v)) = span (skipn 7 ((y ++ x) ++ v))) as Esp.
    { rewrite !(skipn_app_le' (y ++ x) _ 7) by (rewrite app_length; lia). apply span_inside.
      rewrite <- (skipn_app_le' (y ++ x) v 7) by (rewrite app_length; lia). rewrite skipn_length, app_length.
      assert (0 < List.length x) by (destruct x; [contradiction | cbn; lia]). fold k in Hl. unfold k in Hl. lia. }
    rewrite Esp. fold k.
    rewrite <- !app_assoc in *. rewrite (skipn_app_le' y (x ++ c :: v) k Hl). rewrite (skipn_app_le' y (x ++ v) k Hl) in H. apply IH. exact H.
  - rewrite (starts_stable c Hc expect_mark Be (y ++ x) v ltac:(intro E; rewrite E in He; discriminate)), He.
    destruct (starts close_mark ((y ++ x) ++ v)) eqn:Hcl.
    + (* the terminator: y is exactly the terminator *)
      injection H as H. change (skipn 2 ((y ++ x) ++ v) = x ++ v) in H. assert (List.length y = 2) as Hl2.
      { apply (f_equal (@List.length _)) in H. rewrite skipn_length in H. rewrite !app_length in H.
        pose proof (starts_length close_mark _ Hcl) as H2. rewrite !app_length in H2. cbn [List.length close_mark] in H2. lia. }
      rewrite (starts_stable c Hc close_mark Bc (y ++ x) v ltac:(intros _; rewrite app_length; cbn; lia)), Hcl.
      rewrite <- !app_assoc. f_equal. destruct y as [|p [|q [|? ?]]]; try (cbn in Hl2; lia). reflexivity.
    + rewrite (starts_stable c Hc close_mark Bc (y ++ x) v ltac:(intro E; rewrite E in Hcl; discriminate)), Hcl.
      destruct y as [|a y].
      * (* the comment cannot end before it has consumed anything *)
        cbn [app] in *. rewrite Es in H. pose proof (scan_shorter0 _ _ _ H) as Hl. rewrite <- Es in Hl. cbn [app] in Hl. rewrite Es in Hl. cbn [List.length] in Hl. lia.
      * cbn [app] in Es, Es'. injection Es as <- <-. injection Es' as <- <-. rewrite <- !app_assoc in *. apply IH. exact H.
Qed.

(* ---------- the token stream ---------- *)
Section Stream.
  Variable literals : list (string * string).
  Hypothesis Hbf : table_blank_free literals.

  Lemma scan_shorter fuel s rest : scan fuel s = Closed rest -> List.length rest <= List.length s.
  Proof. intro H. destruct (CommentLexProofs.scan_ends_behind_terminator fuel s rest H) as (n & -> & _). rewrite skipn_length. lia. Qed.

  Lemma lex_step f s : lex literals (S f) s =
    match lex1 literals s with
    | Eof => Some [] | Skip _ n => lex literals f (skipn n s)
    | Tok KLf n => lex literals f (skipn n s) | Tok KCrLf n => lex literals f (skipn n s)
    | Tok k0 n => option_map (cons (k0, firstn n s)) (lex literals f (skipn n s))
    | Comment => match scan (List.length s) (skipn 2 s) with Closed rest => lex literals f rest | Unclosed => None end
    end.
  Proof. reflexivity. Qed.

  (* more fuel than characters makes no difference *)
  Lemma lex_fuel : forall f1 f2 s, List.length s <= f1 -> List.length s <= f2 -> lex literals f1 s = lex literals f2 s.
  Proof.
    induction f1 as [|f1 IH]; intros f2 s H1 H2.
    - destruct s; [|cbn in H1; lia]. destruct f2; reflexivity.
    - destruct f2 as [|f2]; [destruct s; [reflexivity | cbn in H2; lia]|].
      destruct s as [|a s]; [reflexivity|]. cbn [lex]. pose proof (lex1_progress literals a s) as Hp.
      assert (forall n, 0 < n -> List.length (skipn n (a :: s)) <= f1 /\ List.length (skipn n (a :: s)) <= f2) as Hk.
      { intros n Hn. rewrite skipn_length. cbn [List.length] in *. lia. }
      destruct (lex1 literals (a :: s)) as [k n|w n| |] eqn:E; cbn [lexeme_len] in Hp.
      + destruct (Hk n Hp) as [K1 K2]. destruct k; try (f_equal; apply IH; assumption); apply IH; assumption.
      + destruct (Hk n Hp) as [K1 K2]. apply IH; assumption.
      + destruct (scan (List.length (a :: s)) (skipn 2 (a :: s))) as [rest|] eqn:Es; [|reflexivity].
        pose proof (scan_shorter _ _ _ Es) as Hr. rewrite skipn_length in Hr. cbn [List.length] in *. apply IH; lia.
      + reflexivity.
  Qed.

  Variable c : ascii.
  Hypothesis Hc : is_blank c = true.

  (* the end of x is the end of a token of the text x ++ v (reached by the scanner through tokens, skipped lexemes and closed block comments) *)
  Inductive token_end : text -> text -> Prop :=
    | TE_here x v k : lex1 literals (x ++ v) = Tok k (List.length x) -> k <> KLf -> k <> KCrLf -> (forall a, x = [a] -> (code a =? 34) = false) -> token_end x v
    | TE_tok w x v k : lex1 literals ((w ++ x) ++ v) = Tok k (List.length w) -> x <> [] -> token_end x v -> token_end (w ++ x) v
    | TE_skip w x v sk : lex1 literals ((w ++ x) ++ v) = Skip sk (List.length w) -> x <> [] -> token_end x v -> token_end (w ++ x) v
    | TE_comment w x v : lex1 literals ((w ++ x) ++ v) = Comment -> scan (List.length ((w ++ x) ++ v)) (skipn 2 ((w ++ x) ++ v)) = Closed (x ++ v) ->
                         x <> [] -> token_end x v -> token_end (w ++ x) v.

  Lemma lex_leading_blank f v : List.length v <= f -> lex literals (S f) (c :: v) = lex literals f v.
  Proof.
    intro Hf. rewrite (lex_step f (c :: v)). rewrite (lex1_blank literals Hbf c v Hc). unfold m_blank. cbn [spanp]. rewrite Hc. cbn [skipn].
    destruct v as [|b v]; [reflexivity|]. cbn [spanp]. destruct (is_blank b) eqn:Eb; [|reflexivity].
    destruct f as [|f]; [cbn in Hf; lia|]. rewrite (lex_step f (b :: v)). rewrite (lex1_blank literals Hbf b v Eb). unfold m_blank. cbn [spanp]. rewrite Eb. cbn [skipn].
    apply lex_fuel; rewrite skipn_length; cbn [List.length] in Hf; lia.
  Qed.

  (* a blank written behind a token of the text leaves the token stream as it is *)
  Theorem lex_blank_at_token_end x v : token_end x v -> forall f, List.length (x ++ v) <= f -> lex literals (S f) (x ++ c :: v) = lex literals f (x ++ v).
  Proof.
    induction 1 as [x v k H Hlf Hcr Hq | w x v k H Hx Hte IH | w x v sk H Hx Hte IH | w x v H Hsc Hx Hte IH]; intros f Hf.
    - pose proof (lex1_blank_behind_token literals Hbf c Hc x v k H Hlf Hcr Hq) as H'.
      assert (x <> []) as Hxn. { intros ->. cbn [app List.length] in H. destruct v as [|d v]; [discriminate|]. pose proof (lex1_progress literals d v) as Hp. rewrite H in Hp. cbn in Hp. lia. }
      destruct f as [|f]; [destruct x; [contradiction | cbn in Hf; lia]|].
      rewrite (lex_step (S f) (x ++ c :: v)), (lex_step f (x ++ v)).
      rewrite H, H'. rewrite !firstn_app_exact, !skipn_app_exact.
      assert (lex literals (S f) (c :: v) = lex literals f v) as -> by (apply lex_leading_blank; rewrite app_length in Hf; destruct x; [contradiction | cbn in Hf; lia]).
      destruct k; try reflexivity; contradiction.
    - assert (List.length w < List.length (w ++ x)) as Hlt by (rewrite app_length; destruct x; [contradiction | cbn; lia]).
      pose proof (lex1_blank_further_back literals Hbf c Hc (w ++ x) v ltac:(rewrite H; exact Hlt)) as H'. rewrite H in H'.
      assert (w <> []) as Hw. { intros ->. cbn [app List.length] in H. destruct (x ++ v) as [|d r] eqn:E; [discriminate|]. pose proof (lex1_progress literals d r) as Hp. rewrite H in Hp. cbn in Hp. lia. }
      destruct f as [|f]; [rewrite !app_length in Hf; destruct w; [contradiction | cbn in Hf; lia]|].
      assert (List.length (x ++ v) <= f) as Hf' by (rewrite !app_length in *; destruct w; [contradiction | cbn in Hf; lia]).
      specialize (IH f Hf').
      rewrite (lex_step (S f) ((w ++ x) ++ c :: v)), (lex_step f ((w ++ x) ++ v)).
      rewrite H, H'. rewrite <- !app_assoc. rewrite !firstn_app_exact, !skipn_app_exact. rewrite IH. reflexivity.
    - assert (List.length w < List.length (w ++ x)) as Hlt by (rewrite app_length; destruct x; [contradiction | cbn; lia]).
      pose proof (lex1_blank_further_back literals Hbf c Hc (w ++ x) v ltac:(rewrite H; exact Hlt)) as H'. rewrite H in H'.
      assert (w <> []) as Hw. { intros ->. cbn [app List.length] in H. destruct (x ++ v) as [|d r] eqn:E; [discriminate|]. pose proof (lex1_progress literals d r) as Hp. rewrite H in Hp. cbn in Hp. lia. }
      destruct f as [|f]; [rewrite !app_length in Hf; destruct w; [contradiction | cbn in Hf; lia]|].
      assert (List.length (x ++ v) <= f) as Hf' by (rewrite !app_length in *; destruct w; [contradiction | cbn in Hf; lia]).
      specialize (IH f Hf').
      rewrite (lex_step (S f) ((w ++ x) ++ c :: v)), (lex_step f ((w ++ x) ++ v)).
      rewrite H, H'. rewrite <- !app_assoc. rewrite !skipn_app_exact. exact IH.
    - pose proof (scan_shorter0 _ _ _ Hsc) as Hl. rewrite skipn_length in Hl. rewrite !app_length in Hl.
      assert (0 < List.length x) as Hxl by (destruct x; [contradiction | cbn; lia]).
      assert (2 <= List.length w) as Hw2 by lia.
      pose proof (lex1_blank_further_back literals Hbf c Hc (w ++ x) v ltac:(rewrite H; cbn [lexeme_len]; rewrite app_length; lia)) as H'. rewrite H in H'.
      destruct f as [|f]; [rewrite !app_length in Hf; lia|].
      assert (List.length (x ++ v) <= f) as Hf' by (rewrite !app_length in *; lia).
      specialize (IH f Hf').
      rewrite (lex_step (S f) ((w ++ x) ++ c :: v)), (lex_step f ((w ++ x) ++ v)). rewrite H, H', Hsc.
      replace (List.length ((w ++ x) ++ c :: v)) with (S (List.length ((w ++ x) ++ v))) by (rewrite !app_length; cbn; lia).
      rewrite <- !app_assoc in *. rewrite (skipn_app_le' w (x ++ c :: v) 2 Hw2). rewrite (skipn_app_le' w (x ++ v) 2 Hw2) in Hsc.
      rewrite (scan_stable c x v Hc Hx _ _ Hsc). exact IH.
  Qed.

  (* ---- the hypothesis computed: the ends of the tokens of a text ---- *)
  Definition sturdy (k : kind) (n : nat) (s : text) : bool :=
    match k with KLf | KCrLf => false | _ => true end && (n <=? List.length s) && negb ((n =? 1) && match s with a :: _ => code a =? 34 | [] => false end).
  Fixpoint ends (fuel : nat) (s : text) : list nat :=
    match fuel with O => [] | S f =>
    match lex1 literals s with
    | Eof => []
    | Tok k n => (if sturdy k n s then [n] else []) ++ (if (0 <? n) && (n <=? List.length s) then map (Nat.add n) (ends f (skipn n s)) else [])
    | Skip _ n => if (0 <? n) && (n <=? List.length s) then map (Nat.add n) (ends f (skipn n s)) else []
    | Comment => match scan (List.length s) (skipn 2 s) with
                 | Closed rest => if List.length rest <? List.length s then map (Nat.add (List.length s - List.length rest)) (ends f rest) else []
                 | Unclosed => [] end
    end end.

  Lemma token_end_nonempty x v : token_end x v -> x <> [].
  Proof.
    induction 1 as [x v k H _ _ _ | w x v k H Hx _ _ | w x v sk H Hx _ _ | w x v H _ Hx _ _]; try (intro E; apply app_eq_nil in E as [_ E]; contradiction).
    intros ->. cbn [app List.length] in H. destruct v as [|d v]; [discriminate|]. pose proof (lex1_progress literals d v) as Hp. rewrite H in Hp. cbn in Hp. lia.
  Qed.
  Lemma firstn_add {A} (l : list A) : forall n m, firstn (n + m) l = firstn n l ++ firstn m (skipn n l).
  Proof. induction l as [|a l IH]; intros [|n] m; cbn; try reflexivity; [now rewrite firstn_nil | f_equal; apply IH]. Qed.
  Lemma skipn_add {A} (l : list A) : forall n m, skipn (n + m) l = skipn m (skipn n l).
  Proof. induction l as [|a l IH]; intros [|n] m; cbn; try reflexivity; [now rewrite skipn_nil | apply IH]. Qed.

  Theorem ends_are_token_ends : forall fuel s p, In p (ends fuel s) -> token_end (firstn p s) (skipn p s).
  Proof.
    induction fuel as [|f IH]; intros s p Hin; [destruct Hin|]. cbn [ends] in Hin.
    destruct (lex1 literals s) as [k n|sk n| |] eqn:El; [| | |destruct Hin].
    - apply in_app_or in Hin as [Hin|Hin].
      + destruct (sturdy k n s) eqn:Es; [|destruct Hin]. destruct Hin as [<-|[]]. unfold sturdy in Es.
        apply andb_prop in Es as [Es Hq]. apply andb_prop in Es as [Hk Hn]. apply Nat.leb_le in Hn.
        apply (TE_here (firstn n s) (skipn n s) k).
        * rewrite firstn_skipn, firstn_length_le by exact Hn. exact El.
        * intros ->. discriminate.
        * intros ->. discriminate.
        * intros a Ea. apply negb_true_iff in Hq. assert (n = 1) as -> by (apply (f_equal (@List.length _)) in Ea; rewrite firstn_length_le in Ea by exact Hn; exact Ea).
          destruct s as [|b s]; [discriminate|]. cbn in Ea. injection Ea as <-. cbn in Hq. exact Hq.
      + destruct ((0 <? n) && (n <=? List.length s)) eqn:Eg; [|destruct Hin]. apply andb_prop in Eg as [Hpos Hn]. apply Nat.ltb_lt in Hpos. apply Nat.leb_le in Hn.
        apply in_map_iff in Hin as (q & <- & Hq). specialize (IH _ _ Hq). rewrite firstn_add, skipn_add.
        apply (TE_tok (firstn n s) (firstn q (skipn n s)) (skipn q (skipn n s)) k); [|exact (token_end_nonempty _ _ IH) | exact IH].
        rewrite <- app_assoc, firstn_skipn, firstn_skipn, firstn_length_le by exact Hn. exact El.
    - destruct ((0 <? n) && (n <=? List.length s)) eqn:Eg; [|destruct Hin]. apply andb_prop in Eg as [Hpos Hn]. apply Nat.ltb_lt in Hpos. apply Nat.leb_le in Hn.
      apply in_map_iff in Hin as (q & <- & Hq). specialize (IH _ _ Hq). rewrite firstn_add, skipn_add.
      apply (TE_skip (firstn n s) (firstn q (skipn n s)) (skipn q (skipn n s)) sk); [|exact (token_end_nonempty _ _ IH) | exact IH].
      rewrite <- app_assoc, firstn_skipn, firstn_skipn, firstn_length_le by exact Hn. exact El.
    - destruct (scan (List.length s) (skipn 2 s)) as [rest|] eqn:Esc; [|destruct Hin].
      destruct (Nat.ltb_spec (List.length rest) (List.length s)) as [Hlt|]; [|destruct Hin].
      apply in_map_iff in Hin as (q & <- & Hq). specialize (IH _ _ Hq).
      (* the comment ends at a suffix of the text *)
      destruct (scan_ends_behind_terminator _ _ _ Esc) as (m & Er & _). rewrite skipn_skipn' in Er.
      set (d := List.length s - List.length rest).
      assert (rest = skipn d s) as Erd.
      { assert (List.length rest = List.length s - (2 + (m + 2))) as Hlr by (rewrite Er at 1; apply skipn_length).
        destruct (Nat.le_gt_cases (2 + (m + 2)) (List.length s)) as [Hle|Hgt].
        - replace d with (2 + (m + 2)) by (unfold d; lia). exact Er.
        - assert (rest = []) as -> by (destruct rest; [reflexivity | cbn in Hlr; lia]). unfold d. cbn [List.length]. rewrite Nat.sub_0_r. symmetry. apply skipn_all. }
      rewrite firstn_add, skipn_add. rewrite <- Erd.
      apply (TE_comment (firstn d s) (firstn q rest) (skipn q rest)); [| |exact (token_end_nonempty _ _ IH) | exact IH].
      + rewrite <- app_assoc, firstn_skipn. assert (firstn d s ++ rest = s) as -> by (rewrite Erd; apply firstn_skipn). exact El.
      + rewrite <- app_assoc, firstn_skipn. assert (firstn d s ++ rest = s) as -> by (rewrite Erd; apply firstn_skipn). exact Esc.
  Qed.
  (* for every text and every end of a token in it, computed by the scanner itself *)
  Corollary lex_blank_at_any_token_end s p : In p (ends (List.length s) s) ->
    lex literals (S (List.length s)) (firstn p s ++ c :: skipn p s) = lex literals (List.length s) s.
  Proof.
    intro Hin. pose proof (ends_are_token_ends _ _ _ Hin) as Hte.
    rewrite (lex_blank_at_token_end _ _ Hte (List.length s)); rewrite firstn_skipn; [reflexivity | lia].
  Qed.
End Stream.
