(* C07: the frame / map / parent-chain implementation computes the textbook binding rule. *)
From Coq Require Import List Arith Bool Lia.
From Utap Require Import Scope.
Import ListNotations.

Lemma map_get_set m n i n' : map_get (map_set m n i) n' = if Nat.eqb n n' then Some i else map_get m n'.
Proof.
  induction m as [|[k v] m IH]; cbn.
  - destruct (Nat.eqb n n'); reflexivity.
  - destruct (Nat.eqb_spec k n) as [->|Hkn]; cbn.
    + destruct (Nat.eqb n n'); reflexivity.
    + rewrite IH. destruct (Nat.eqb_spec k n') as [->|Hkn'].
      * destruct (Nat.eqb_spec n n'); [congruence | reflexivity].
      * reflexivity.
Qed.

(* a frame represents the declarations made in its scope so far (nearest first) *)
Definition rep (f : frame) (ds : list (name * did)) : Prop :=
  f_syms f = rev ds /\ (forall n j, map_get (f_map f) n = Some j -> j < length (f_syms f)) /\ (forall n, frame_lookup f n = nearest ds n).
Lemma rep_empty : rep empty_frame [].
Proof. repeat split; cbn; intros; discriminate. Qed.
Lemma rep_add f ds n d : rep f ds -> rep (add_symbol f n d) ((n, d) :: ds).
Proof.
  intros (Hs & Hb & Hl). unfold add_symbol. repeat split; cbn [f_syms f_map].
  - cbn [rev]. now rewrite Hs.
  - intros n' j. rewrite map_get_set, app_length. cbn. destruct (Nat.eqb n n'); intro E; [injection E as <-; lia | specialize (Hb _ _ E); lia].
  - intro n'. unfold frame_lookup. cbn [f_syms f_map nearest]. rewrite map_get_set.
    destruct (Nat.eqb_spec n n') as [->|Hn].
    + rewrite nth_error_app2, Nat.sub_diag by lia. reflexivity.
    + specialize (Hl n'). unfold frame_lookup in Hl. destruct (map_get (f_map f) n') as [j|] eqn:E; [|exact Hl].
      rewrite nth_error_app1 by (eapply Hb; eauto). exact Hl.
Qed.
Lemma resolve_binds st env n : Forall2 rep st env -> resolve st n = binds env n.
Proof.
  induction 1 as [|f ds st env (_ & _ & Hl) _ IH]; [reflexivity|]. cbn. rewrite Hl. destruct (nearest ds n); [reflexivity | exact IH].
Qed.

(* the walk: bindings agree with the specification; a scope leaves the frames outside it as they were *)
Theorem walk_spec : forall fuel its f up cur outer, size its <= fuel -> rep f cur -> Forall2 rep up outer ->
  exists f' cur', walk fuel its (f :: up) = (spec fuel its cur outer, f' :: up) /\ rep f' cur'.
Proof.
  induction fuel as [|fuel IH]; intros its f up cur outer Hsz Hf Hup; [destruct its as [|[] ?]; cbn in Hsz; lia|].
  destruct its as [|[n d|n|body] r]; cbn [walk spec].
  - exists f, cur. split; [reflexivity | exact Hf].
  - cbn [size isize] in Hsz. apply (IH r (add_symbol f n d) up ((n, d) :: cur) outer); [lia | now apply rep_add | exact Hup].
  - cbn [size isize] in Hsz. destruct (IH r f up cur outer ltac:(lia) Hf Hup) as (f' & cur' & E & R). rewrite E.
    exists f', cur'. split; [|exact R]. f_equal. f_equal. apply resolve_binds. now constructor.
  - rewrite size_scope in Hsz.
    destruct (IH body empty_frame (f :: up) [] (cur :: outer) ltac:(lia) rep_empty ltac:(now constructor)) as (fb & cb & E1 & _). rewrite E1. cbn [tl].
    destruct (IH r f up cur outer ltac:(lia) Hf Hup) as (f' & cur' & E2 & R). rewrite E2.
    exists f', cur'. split; [reflexivity | exact R].
Qed.

Theorem resolve_is_binds (its : list item) : fst (walk (size its) its [empty_frame]) = spec (size its) its [] [].
Proof. destruct (walk_spec (size its) its empty_frame [] [] [] (le_n _) rep_empty (Forall2_nil _)) as (f' & c' & E & _). now rewrite E. Qed.

(* frames are balanced: after the whole text exactly the outermost frame is left *)
Theorem walk_balanced (its : list item) : length (snd (walk (size its) its [empty_frame])) = 1.
Proof. destruct (walk_spec (size its) its empty_frame [] [] [] (le_n _) rep_empty (Forall2_nil _)) as (f' & c' & E & _). now rewrite E. Qed.

(* what the specification says, in words: a use binds to a declaration of its own name ... *)
Lemma nearest_sound ds n d : nearest ds n = Some d -> exists a b, ds = a ++ (n, d) :: b /\ forall d', ~ In (n, d') a.
Proof.
  induction ds as [|[k e] ds IH]; cbn; [discriminate|]. destruct (Nat.eqb_spec k n) as [->|Hk].
  - intro E. injection E as ->. exists [], ds. split; [reflexivity | intros d' []].
  - intro E. destruct (IH E) as (a & b & -> & Hn). exists ((k, e) :: a), b. split; [reflexivity|].
    intros d' [H|H]; [injection H as ? ?; congruence | exact (Hn d' H)].
Qed.
(* ... and reports it unknown exactly when no enclosing scope has declared it before the use *)
Lemma binds_none env n : binds env n = None <-> forall sc d, In sc env -> ~ In (n, d) sc.
Proof.
  induction env as [|sc env IH]; cbn; [split; [intros _ sc d [] | reflexivity]|].
  destruct (nearest sc n) as [d|] eqn:E.
  - split; [discriminate|]. intro H. destruct (nearest_sound _ _ _ E) as (a & b & -> & _).
    exfalso. apply (H _ d (or_introl eq_refl)). apply in_or_app; right; now left.
  - rewrite IH. split.
    + intros H sc' d [<-|Hin]; [|now apply H]. clear -E. induction sc as [|[k e] sc IHs]; cbn in *; [tauto|].
      destruct (Nat.eqb_spec k n); [discriminate|]. intros [H|H]; [injection H as ? ?; congruence | now apply IHs].
    + intros H sc' d Hin. apply H. now right.
Qed.

(* ---------- C09: binding is invariant under consistent renaming of identifiers ---------- *)
Fixpoint rename_item (s : name -> name) (i : item) : item :=
  match i with
  | Decl n d => Decl (s n) d
  | Use n => Use (s n)
  | Scope b => Scope ((fix go (l : list item) : list item := match l with [] => [] | x :: r => rename_item s x :: go r end) b)
  end.
Definition rename (s : name -> name) (its : list item) : list item := map (rename_item s) its.
Lemma rename_scope s b : rename_item s (Scope b) = Scope (rename s b).
Proof. reflexivity. Qed.
Definition ren_env (s : name -> name) (ds : list (name * did)) : list (name * did) := map (fun nd => (s (fst nd), snd nd)) ds.

Section Rename.
Variable s : name -> name.
Hypothesis s_inj : forall a b, s a = s b -> a = b.
Lemma eqb_ren a b : Nat.eqb (s a) (s b) = Nat.eqb a b.
Proof. destruct (Nat.eqb_spec a b) as [->|N]; [apply Nat.eqb_refl|]. apply Nat.eqb_neq. intro E. apply N, s_inj, E. Qed.
Lemma nearest_ren ds n : nearest (ren_env s ds) (s n) = nearest ds n.
Proof. induction ds as [|[k d] ds IH]; [reflexivity|]. cbn. rewrite eqb_ren. destruct (Nat.eqb k n); [reflexivity | exact IH]. Qed.
Lemma binds_ren env n : binds (map (ren_env s) env) (s n) = binds env n.
Proof. induction env as [|sc env IH]; [reflexivity|]. cbn. rewrite nearest_ren. destruct (nearest sc n); [reflexivity | exact IH]. Qed.
Lemma spec_ren : forall fuel its cur outer, spec fuel (rename s its) (ren_env s cur) (map (ren_env s) outer) = spec fuel its cur outer.
Proof.
  induction fuel as [|fuel IH]; intros its cur outer; [reflexivity|].
  destruct its as [|[n d|n|b] r]; cbn [rename map]; [reflexivity | | |].
  - cbn [rename_item spec]. apply (IH r ((n, d) :: cur) outer).
  - cbn [rename_item spec]. f_equal; [apply (binds_ren (cur :: outer)) | apply IH].
  - rewrite rename_scope. cbn [spec]. f_equal; [apply (IH b [] (cur :: outer)) | apply IH].
Qed.
Lemma size_ren_aux : forall n its, size its <= n -> size (rename s its) = size its.
Proof.
  induction n as [|n IH]; intros its H; [destruct its as [|[] ?]; cbn in H; lia|].
  destruct its as [|[k d|k|b] r]; [reflexivity | | |]; cbn [rename map].
  - change (map (rename_item s) r) with (rename s r). cbn [rename_item size isize] in *. f_equal. apply IH. lia.
  - change (map (rename_item s) r) with (rename s r). cbn [rename_item size isize] in *. f_equal. apply IH. lia.
  - rewrite rename_scope. change (map (rename_item s) r) with (rename s r). rewrite !size_scope in *.
    rewrite (IH b), (IH r) by lia. reflexivity.
Qed.
(* every use keeps its declaration when all identifiers are renamed by an injective map *)
Theorem rename_invariant (its : list item) :
  fst (walk (size (rename s its)) (rename s its) [empty_frame]) = fst (walk (size its) its [empty_frame]).
Proof.
  rewrite !resolve_is_binds, (size_ren_aux (size its) its (le_n _)).
  exact (spec_ren (size its) its [] []).
Qed.
End Rename.
