(* L-TYPE (class level): hand model of the operator clauses of TypeChecker::checkExpression
   (src/typechecker.cpp) over the classes of expression types they inspect.  Structured types carry a
   nominal tag: two records / arrays / scalar sets are `areEquivalent` iff their tags are equal (the
   structural definition and its symmetry are in TypeEquiv.v). *)
From Coq Require Import List Bool Arith.
Import ListNotations.

Inductive cls :=
  | CInt | CBool | CDouble | CClock | CDiff | CRate | CCost
  | CInvariant | CInvariantWR | CGuard | CConstraint | CFormula
  | CRecord (tag : nat) | CArray (tag : nat) | CScalar (tag : nat) | CChannel (cap : nat) | CString | CVoid.

Definition cls_eqb (a b : cls) : bool :=
  match a, b with
  | CInt, CInt | CBool, CBool | CDouble, CDouble | CClock, CClock | CDiff, CDiff | CRate, CRate | CCost, CCost
  | CInvariant, CInvariant | CInvariantWR, CInvariantWR | CGuard, CGuard | CConstraint, CConstraint | CFormula, CFormula
  | CString, CString | CVoid, CVoid => true
  | CRecord i, CRecord j | CArray i, CArray j | CScalar i, CScalar j | CChannel i, CChannel j => Nat.eqb i j
  | _, _ => false
  end.

(* type.h / typechecker.cpp predicates *)
Definition is_integer c := match c with CInt => true | _ => false end.
Definition is_integral c := match c with CInt | CBool => true | _ => false end.
Definition is_double c := match c with CDouble => true | _ => false end.
Definition is_clock c := match c with CClock => true | _ => false end.
Definition is_diff c := match c with CDiff => true | _ => false end.
Definition is_rate c := match c with CRate => true | _ => false end.
Definition is_cost c := match c with CCost => true | _ => false end.
Definition isBound c := is_integer c || is_double c.
Definition is_double_value c := is_double c || is_clock c || is_diff c.
Definition is_number c := is_double_value c || is_integral c.
Definition is_invariant c := match c with CInvariant => true | _ => is_integral c end.
Definition isInvariantWR c := is_invariant c || match c with CInvariantWR => true | _ => false end.
Definition is_guard c := match c with CGuard => true | _ => is_invariant c end.
Definition is_constraint c := match c with CConstraint => true | _ => is_guard c end.
Definition is_formula c := match c with CFormula => true | _ => is_constraint c end.

(* areEquivalent on classes (integers ignore ranges at this level; structured types by tag) *)
Definition areEquivalent (a b : cls) : bool :=
  match a, b with
  | CInt, CInt | CBool, CBool | CClock, CClock | CDouble, CDouble | CString, CString => true
  | CChannel i, CChannel j | CRecord i, CRecord j | CArray i, CArray j | CScalar i, CScalar j => Nat.eqb i j
  | _, _ => false
  end.
Definition areEqCompatible (a b : cls) : bool := (is_integral a && is_integral b) || areEquivalent a b.
Definition areAssignmentCompatible (l r : cls) : bool :=
  ((is_clock l || is_double l) && (is_integral r || is_double r || is_clock r)) || (is_integral l && is_integral r) || areEquivalent l r.

Inductive bop :=
  | OPlus | OMinus | OMult | ODiv | OPow | OMin | OMax | OMod | OBitAnd | OBitOr | OBitXor | OLshift | ORshift
  | OAnd | OOr | OXor | OLt | OLe | OGe | OGt | OEq | ONeq.
Definition all_ops := [OPlus; OMinus; OMult; ODiv; OPow; OMin; OMax; OMod; OBitAnd; OBitOr; OBitXor; OLshift; ORshift;
                       OAnd; OOr; OXor; OLt; OLe; OGe; OGt; OEq; ONeq].

(* the binary-operator clauses, in the order of the if-chains; None = "$Type_error" *)
Definition bin_type (o : bop) (a b : cls) : option cls :=
  match o with
  | OPlus =>
      if is_integral a && is_integral b then Some CInt
      else if (is_integer a && is_clock b) || (is_clock a && is_integer b) then Some CClock
      else if (is_diff a && is_integer b) || (is_integer a && is_diff b) then Some CDiff
      else if is_number a && is_number b then Some CDouble else None
  | OMinus =>
      if is_integral a && is_integral b then Some CInt
      else if is_clock a && is_integer b then Some CClock
      else if (is_diff a && is_integer b) || (is_integer a && is_diff b) || (is_clock a && is_clock b) then Some CDiff
      else if is_number a && is_number b then Some CDouble else None
  | OMult | ODiv | OPow | OMin | OMax =>
      if is_integral a && is_integral b then Some CInt
      else if is_number a && is_number b then Some CDouble else None
  | OMod | OBitAnd | OBitOr | OBitXor | OLshift | ORshift =>
      if is_integral a && is_integral b then Some CInt else None
  | OAnd =>
      if is_integral a && is_integral b then Some CBool
      else if is_invariant a && is_invariant b then Some CInvariant
      else if isInvariantWR a && isInvariantWR b then Some CInvariantWR
      else if is_guard a && is_guard b then Some CGuard
      else if is_constraint a && is_constraint b then Some CConstraint
      else if is_formula a && is_formula b then Some CFormula else None
  | OOr =>
      if is_integral a && is_integral b then Some CBool
      else if is_integral a && is_invariant b then Some CInvariant
      else if is_invariant a && is_integral b then Some CInvariant
      else if is_integral a && isInvariantWR b then Some CInvariantWR
      else if isInvariantWR a && is_integral b then Some CInvariantWR
      else if is_integral a && is_guard b then Some CGuard
      else if is_guard a && is_integral b then Some CGuard
      else if is_constraint a && is_constraint b then Some CConstraint else None
  | OXor => if is_integral a && is_integral b then Some CBool else None
  | OLt | OLe =>
      if is_integral a && is_integral b then Some CBool
      else if (is_clock a && is_clock b) || (is_clock a && isBound b) || (is_clock b && isBound a)
              || (is_diff a && isBound b) || (isBound a && is_diff b) then Some CInvariant
      else if is_number a && is_clock b then Some CGuard
      else if is_clock a && is_number b then Some CGuard
      else if is_number a && is_number b then Some CBool else None
  | OGe | OGt =>
      if is_integral a && is_integral b then Some CBool
      else if (is_clock a && is_clock b) || (is_integer a && is_clock b) || (is_integer b && is_clock a)
              || (is_diff a && is_integer b) || (is_integer a && is_diff b) then Some CInvariant
      else if is_number a && is_clock b then Some CGuard
      else if is_clock a && is_number b then Some CGuard
      else if is_number a && is_number b then Some CBool else None
  | OEq =>
      if (is_clock a && is_clock b) || (is_clock a && is_number b) || (is_number a && is_clock b)
         || (is_diff a && is_number b) || (is_number a && is_diff b) then Some CGuard
      else if areEqCompatible a b then Some CBool
      else if (is_rate a && (is_integral b || is_double_value b)) || ((is_integral a || is_double_value a) && is_rate b) then Some CInvariantWR
      else if is_number a && is_number b then Some CBool else None
  | ONeq =>
      if areEqCompatible a b then Some CBool
      else if (is_clock a && is_clock b) || (is_clock a && is_integer b) || (is_integer a && is_clock b)
              || (is_diff a && is_integer b) || (is_integer a && is_diff b) then Some CConstraint
      else if is_number a && is_number b then Some CBool else None
  end.

Definition not_type (a : cls) : option cls :=
  if is_integral a then Some CBool else if is_constraint a then Some CConstraint else None.
Definition forall_type (a : cls) : option cls :=
  if is_integral a then Some CBool else if is_invariant a then Some CInvariant else if isInvariantWR a then Some CInvariantWR
  else if is_guard a then Some CGuard else if is_constraint a then Some CConstraint else None.
Definition exists_type (a : cls) : option cls :=
  if is_integral a then Some CBool else if is_constraint a then Some CConstraint else None.

(* inline-if: getInlineIfCommonType then areInlineIfCompatible *)
Definition is_record c := match c with CRecord _ => true | _ => false end.
Definition iif_common (t1 t2 : cls) : option cls :=
  if is_record t1 then Some t1 else if is_record t2 then Some t2
  else if xorb (is_clock t1) (is_clock t2) then Some CDouble
  else if areAssignmentCompatible t1 t2 then Some t1
  else if areAssignmentCompatible t2 t1 then Some t2
  else if areEquivalent t2 t1 then Some t1 else None.
Definition iif_type (c t1 t2 : cls) : option cls :=
  if negb (is_integral c || is_guard c) then None
  else match iif_common t1 t2 with
       | Some r => if (areAssignmentCompatible r t1 && areAssignmentCompatible r t2) || areEquivalent t1 t2 then Some r else None
       | None => if areEquivalent t1 t2 then None (* unreachable: equivalent types have a common type *) else None
       end.

(* all classes with small tags: the finite domain of the exhaustive certificates / correspondence *)
Definition all_cls : list cls :=
  [CInt; CBool; CDouble; CClock; CDiff; CRate; CCost; CInvariant; CInvariantWR; CGuard; CConstraint; CFormula;
   CRecord 0; CRecord 1; CArray 0; CArray 1; CScalar 0; CScalar 1; CChannel 0; CChannel 1; CChannel 2; CString; CVoid].
