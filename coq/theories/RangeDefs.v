(* L-RANGE, integral instance: hand model of include/utap/range.h (range_t<T>, T a signed
   integer type with bounds [lo,hi]).  Every member is a function returning the new value.
   Arithmetic is wrapped explicitly (the conversion back to T); theorems carry the no-overflow
   guard `fits`.  No proofs in this file so that the model still runs when a proof breaks. *)
From Coq Require Export ZArith List Bool Lia.
Export ListNotations.
Local Open Scope Z_scope.

Record range := mkr { start : Z; finish : Z }.

Section Bounded.
Variables lo hi : Z.           (* numeric_limits<T>::min / max *)

Definition fits (z : Z) : Prop := lo <= z <= hi.
Definition fitsb (z : Z) : bool := (lo <=? z) && (z <=? hi).
(* conversion of an out-of-range int to T: modulo 2^n into [lo,hi] (hi - lo + 1 = 2^n) *)
Definition wrap (z : Z) : Z := (z - lo) mod (hi - lo + 1) + lo.

Definition next_value (v : Z) : Z := wrap (v + 1).
Definition prev_value (v : Z) : Z := wrap (v - 1).

Definition empty (r : range) : bool := finish r <? start r.          (* start > finish *)
Definition make_empty : range := mkr 1 0.
Definition single (e : Z) : range := mkr e e.

Definition r_lt (r o : range) : bool := finish r <? start o.         (* operator<  *)
Definition r_gt (r o : range) : bool := r_lt o r.                    (* operator>  *)
Definition r_le (r o : range) : bool := negb (r_gt r o).             (* operator<= *)
Definition r_ge (r o : range) : bool := negb (r_lt r o).             (* operator>= *)

Definition lower (r : range) (b : Z) : range := mkr (Z.min (start r) b) (finish r).
Definition raise (r : range) (b : Z) : range := mkr (start r) (Z.max (finish r) b).
Definition or_e (r : range) (e : Z) : range := raise (lower r e) e.                    (* |= T *)
Definition or_r (r o : range) : range := raise (lower r (start o)) (finish o).          (* |= range *)

(* integral instantiation: the has_infinity branches of gt/lt are compiled out *)
Definition gt (r : range) (l : Z) : range := mkr (Z.max (next_value l) (start r)) (finish r).
Definition lt (r : range) (u : Z) : range := mkr (start r) (Z.min (finish r) (prev_value u)).
Definition geq (r : range) (l : Z) : range := mkr (Z.max (start r) l) (finish r).
Definition leq (r : range) (u : Z) : range := mkr (start r) (Z.min (finish r) u).
Definition and_r (r o : range) : range := leq (geq r (start o)) (finish o).             (* &= range *)
Definition and_e (r : range) (e : Z) : range := leq (geq r e) e.                        (* &= T *)

Definition add_r (r o : range) : range := mkr (wrap (start r + start o)) (wrap (finish r + finish o)).
Definition add_e (r : range) (e : Z) : range := mkr (wrap (start r + e)) (wrap (finish r + e)).
Definition sub_r (r o : range) : range := mkr (wrap (start r - finish o)) (wrap (finish r - start o)).
Definition sub_e (r : range) (e : Z) : range := mkr (wrap (start r - e)) (wrap (finish r - e)).
Definition mul_r (r o : range) : range :=
  let t1 := wrap (start r * start o) in let t2 := wrap (start r * finish o) in
  let t3 := wrap (finish r * start o) in let t4 := wrap (finish r * finish o) in
  mkr (Z.min (Z.min t1 t2) (Z.min t3 t4)) (Z.max (Z.max t1 t2) (Z.max t3 t4)).
Definition mul_e (r : range) (e : Z) : range :=
  let s := wrap (start r * e) in let f := wrap (finish r * e) in
  if f <? s then mkr f s else mkr s f.

Definition intersects (r o : range) : bool :=                                           (* && range *)
  if start r <=? start o then start o <=? finish r else start r <=? finish o.
Definition contains (r : range) (e : Z) : bool := (start r <=? e) && (e <=? finish r).   (* && T *)
Definition eq_r (r o : range) : bool :=
  if empty r || empty o then Bool.eqb (empty r) (empty o)
  else (finish r =? finish o) && (start r =? start o).
Definition eq_e (r : range) (e : Z) : bool := eq_r r (single e).
(* uint32_t size(): 1 + (finish - start) computed in int, converted to uint32 *)
Definition size (r : range) : Z := if empty r then 0 else (1 + (finish r - start r)) mod 2^32.
End Bounded.

(* set semantics *)
Definition mem (x : Z) (r : range) : Prop := start r <= x <= finish r.
Definition nonempty (r : range) : Prop := start r <= finish r.
Definition inb (lo hi : Z) (r : range) : Prop := lo <= start r <= hi /\ lo <= finish r <= hi.
Definition members (r : range) : list Z :=
  map (fun i => start r + Z.of_nat i) (seq 0 (Z.to_nat (finish r - start r + 1))).
