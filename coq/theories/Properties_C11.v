(* C11 — expressions that must be side-effect free are rejected if they can write state.
   `writes` is the hand model of collect_possible_writes over the function summaries the type checker
   computes (Effects.v); MW is the independent specification "evaluating e may write x" obtained by
   unfolding the bodies of the called functions through every statement form and reference parameter. *)
From Coq Require Import List Bool Arith.
From Utap Require Import Effects EffectsProofs.
Import ListNotations.

Section C11.
Variable defs : list fdef.
Hypothesis scoped : forall f d, nth_error defs f = Some d -> cbs f (body d) = true.     (* a function calls only functions declared before it *)

Theorem C11_writes_complete e x : cb (length defs) e = true -> MW defs e x -> In x (writes (summaries defs []) e).
Proof. exact (writes_complete defs scoped e x). Qed.
(* the checker's test changes_any_variable() == false admits only expressions that can write nothing *)
Theorem C11_side_effect_free_sound e : cb (length defs) e = true -> writes (summaries defs []) e = [] -> forall x, ~ MW defs e x.
Proof. exact (side_effect_free_sound defs scoped e). Qed.
Theorem C11_reads_complete e x : cb (length defs) e = true -> MR defs e x -> In x (reads (summaries defs []) e).
Proof. exact (reads_complete defs scoped e x). Qed.
End C11.

(* non-vacuity: a writer called through a chain and through a reference parameter *)
Example C11_example :
  let w := mkfdef 0 [] [] [] (SIf Lit (SBlock [] [SExpr (Incr false (Var 7))]) None) in            (* void w() { if (..) { g7++; } } *)
  let v := mkfdef 0 [] [] [] (SWhile Lit (SExpr (Call 0 []))) in                                     (* void v() { while (..) w(); } *)
  let r := mkfdef 1 [true] [] [100] (SExpr (Assign (Var 100) Lit)) in                                (* void r(int &p) { p = ..; } *)
  let G := summaries [w; v; r] [] in
  writes G (Call 1 []) = [7] /\ writes G (Call 2 [Idx (Var 3) Lit]) = [3] /\ writes G (Op [Var 1; Call 2 [Lit]]) = [].
Proof. vm_compute. repeat split; reflexivity. Qed.
