(* C17: floating-point assignments inside an edge update (FeatureChecker::visitAssignment after repair a7f3c6f).
   An update is an expression tree; assignments may sit anywhere in it (h = x = 1.5, i = 1, x = 1.5, h = 1.0 + (x = 1.5)).  The checker rules symbolic analysis
   out when some assignment, at any depth, involves a floating-point value and has a target that is not a hybrid clock in every branch of the conditionals that
   choose it.  `visit` is the traversal of the code, `offending` the specification; `visit_top` is the traversal before the repair (top-level plain assignments
   of the comma list only). *)
From Coq Require Import List Bool.
Import ListNotations.

Inductive uexp :=
  | UAtom (fp hybrid : bool)            (* a constant, variable or call: its type is double (or it is a floating-point builtin) / it is a hybrid clock *)
  | UAssign (t r : uexp)                (* any assignment operator: target, assigned value *)
  | UIf (c a b : uexp)                  (* c ? a : b *)
  | UComma (a b : uexp)                 (* a, b *)
  | UNode (a b : uexp).                 (* any other operator or call with these operands *)

Fixpoint uses_fp (e : uexp) : bool :=
  match e with
  | UAtom fp _ => fp
  | UAssign a b | UComma a b | UNode a b => uses_fp a || uses_fp b
  | UIf c a b => uses_fp c || uses_fp a || uses_fp b
  end.
Fixpoint hybrid_target (t : uexp) : bool :=
  match t with UAtom _ h => h | UIf _ a b => hybrid_target a && hybrid_target b | _ => false end.
Definition bad_here (e : uexp) : bool := match e with UAssign t r => uses_fp e && negb (hybrid_target t) | _ => false end.

(* the code: check this node, then every operand *)
Fixpoint visit (e : uexp) : bool :=
  bad_here e ||
  match e with
  | UAtom _ _ => false
  | UAssign a b | UComma a b | UNode a b => visit a || visit b
  | UIf c a b => visit c || visit a || visit b
  end.

(* the specification: some subexpression is an assignment of that kind *)
Inductive sub : uexp -> uexp -> Prop :=
  | sub_refl e : sub e e
  | sub_assign_l s a b : sub s a -> sub s (UAssign a b) | sub_assign_r s a b : sub s b -> sub s (UAssign a b)
  | sub_comma_l s a b : sub s a -> sub s (UComma a b) | sub_comma_r s a b : sub s b -> sub s (UComma a b)
  | sub_node_l s a b : sub s a -> sub s (UNode a b) | sub_node_r s a b : sub s b -> sub s (UNode a b)
  | sub_if_c s c a b : sub s c -> sub s (UIf c a b) | sub_if_a s c a b : sub s a -> sub s (UIf c a b) | sub_if_b s c a b : sub s b -> sub s (UIf c a b).
Definition offending (e : uexp) : Prop := exists s, sub s e /\ bad_here s = true.

Theorem visit_complete e : offending e -> visit e = true.
Proof.
  intros [s [Hs Hb]]. induction Hs; cbn [visit].
  - destruct e; cbn in *; try discriminate; rewrite Hb; reflexivity.
  - rewrite (IHHs Hb), !orb_true_r; reflexivity.
  - rewrite (IHHs Hb), !orb_true_r; reflexivity.
  - rewrite (IHHs Hb), !orb_true_r; reflexivity.
  - rewrite (IHHs Hb), !orb_true_r; reflexivity.
  - rewrite (IHHs Hb), !orb_true_r; reflexivity.
  - rewrite (IHHs Hb), !orb_true_r; reflexivity.
  - rewrite (IHHs Hb), !orb_true_r; reflexivity.
  - rewrite (IHHs Hb), !orb_true_r; reflexivity.
  - rewrite (IHHs Hb), !orb_true_r; reflexivity.
Qed.
Theorem visit_sound e : visit e = true -> offending e.
Proof.
  induction e as [fp h|t IHt r IHr|c IHc a IHa b IHb|a IHa b IHb|a IHa b IHb]; cbn [visit]; intro H.
  - cbn in H. discriminate.
  - apply orb_true_iff in H as [H|H]; [exists (UAssign t r); split; [constructor|exact H]|].
    apply orb_true_iff in H as [H|H]; [destruct (IHt H) as [s [S B]]; exists s; split; [now apply sub_assign_l|exact B] | destruct (IHr H) as [s [S B]]; exists s; split; [now apply sub_assign_r|exact B]].
  - cbn [bad_here orb] in H. apply orb_true_iff in H as [H|H]; [apply orb_true_iff in H as [H|H]|].
    + destruct (IHc H) as [s [S B]]; exists s; split; [now apply sub_if_c|exact B].
    + destruct (IHa H) as [s [S B]]; exists s; split; [now apply sub_if_a|exact B].
    + destruct (IHb H) as [s [S B]]; exists s; split; [now apply sub_if_b|exact B].
  - cbn [bad_here orb] in H. apply orb_true_iff in H as [H|H]; [destruct (IHa H) as [s [S B]]; exists s; split; [now apply sub_comma_l|exact B] | destruct (IHb H) as [s [S B]]; exists s; split; [now apply sub_comma_r|exact B]].
  - cbn [bad_here orb] in H. apply orb_true_iff in H as [H|H]; [destruct (IHa H) as [s [S B]]; exists s; split; [now apply sub_node_l|exact B] | destruct (IHb H) as [s [S B]]; exists s; split; [now apply sub_node_r|exact B]].
Qed.

(* before the repair: plain assignments at the top level of the comma list only *)
Fixpoint visit_top (e : uexp) : bool :=
  match e with UAssign _ _ => bad_here e | UComma a b => visit_top a || visit_top b | _ => false end.
(* h = (x = 1.5): hybrid target outside, a clock assigned 1.5 inside *)
Example top_level_only_refuted :
  let e := UAssign (UAtom false true) (UAssign (UAtom false false) (UAtom true false)) in offending e /\ visit e = true /\ visit_top e = false.
Proof. cbn. split; [|split; reflexivity]. exists (UAssign (UAtom false false) (UAtom true false)). split; [apply sub_assign_r; constructor | reflexivity]. Qed.
(* and what stays allowed: every assignment in the tree has a hybrid target or involves no floating-point value *)
Example hybrid_chain_allowed : visit (UAssign (UAtom false true) (UNode (UAtom true false) (UAssign (UIf (UAtom false false) (UAtom false true) (UAtom false true)) (UAtom true false)))) = false.
Proof. reflexivity. Qed.
