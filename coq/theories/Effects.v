(* L-TYPE / effects: hand model of expression_t::get_symbols, collect_possible_writes,
   collect_possible_reads (src/expression.cpp), the statement visitors (src/statement.cpp) and the
   function summaries computed by TypeChecker::visitFunction, over a small expression / statement
   language; and an independent inductive specification of "evaluating e may write variable x". *)
From Coq Require Import List Bool Arith Lia.
Import ListNotations.

Definition var := nat.
Inductive exp :=
  | Var (x : var) | Lit
  | Op (es : list exp)                         (* any operator / builtin without side effect of its own *)
  | Dot (e : exp) | Idx (a i : exp) | Ite (c a b : exp) | Comma (a b : exp)
  | Assign (l r : exp)                         (* =  +=  -=  ... *)
  | Incr (pre : bool) (l : exp)                (* ++ -- *)
  | Call (f : nat) (args : list exp).

Inductive stm :=
  | SExpr (e : exp) | SAssert (e : exp) | SReturn (e : exp) | SEmpty
  | SFor (init cond step : exp) (body : stm)
  | SIter (body : stm)                         (* for (i : T) body *)
  | SWhile (c : exp) (body : stm) | SDo (body : stm) (c : exp)
  | SBlock (inits : list exp) (ss : list stm)  (* initialisers of the block's variables, then the statements *)
  | SIf (c : exp) (t : stm) (f : option stm).

(* what the checker knows about a declared function when a call is analysed *)
Record fsum := mkfsum { changes : list var; depends : list var; refparam : list bool }.   (* refparam i: parameter i is a non-const reference *)
Definition fenv := list fsum.

(* get_symbols: the variables an expression may denote as an lvalue *)
Fixpoint roots (e : exp) : list var :=
  match e with
  | Var x => [x]
  | Dot a => roots a | Idx a _ => roots a
  | Incr true a => roots a                      (* only the pre-forms are lvalues *)
  | Ite _ a b => roots a ++ roots b
  | Comma _ b => roots b
  | Assign l _ => roots l
  | _ => []
  end.

(* arguments passed to non-const reference parameters *)
Fixpoint ref_roots (rp : list bool) (args : list exp) : list var :=
  match rp, args with
  | true :: rp', a :: args' => roots a ++ ref_roots rp' args'
  | false :: rp', _ :: args' => ref_roots rp' args'
  | _, _ => []
  end.

(* collect_possible_writes *)
Fixpoint writes (G : fenv) (e : exp) : list var :=
  match e with
  | Var _ | Lit => []
  | Op es => flat_map (writes G) es
  | Dot a => writes G a
  | Idx a i => writes G a ++ writes G i
  | Ite c a b => writes G c ++ writes G a ++ writes G b
  | Comma a b => writes G a ++ writes G b
  | Assign l r => writes G l ++ writes G r ++ roots l
  | Incr _ l => writes G l ++ roots l
  | Call f args =>
      flat_map (writes G) args ++
      match nth_error G f with
      | Some s => changes s ++ ref_roots (refparam s) args
      | None => []
      end
  end.
(* collect_possible_reads *)
Fixpoint reads (G : fenv) (e : exp) : list var :=
  match e with
  | Var x => [x] | Lit => []
  | Op es => flat_map (reads G) es
  | Dot a => reads G a
  | Idx a i => reads G a ++ reads G i
  | Ite c a b => reads G c ++ reads G a ++ reads G b
  | Comma a b => reads G a ++ reads G b
  | Assign l r => reads G l ++ reads G r
  | Incr _ l => reads G l
  | Call f args => flat_map (reads G) args ++ match nth_error G f with Some s => depends s | None => [] end
  end.

(* CollectChangesVisitor / CollectDependenciesVisitor over statements *)
Section Visit.
Variable ve : exp -> list var.
Fixpoint visit (s : stm) : list var :=
  match s with
  | SExpr e | SAssert e | SReturn e => ve e
  | SEmpty => []
  | SFor i c st b => ve i ++ ve c ++ ve st ++ visit b
  | SIter b => visit b
  | SWhile c b => ve c ++ visit b
  | SDo b c => ve c ++ visit b
  | SBlock inits ss => flat_map ve inits ++ flat_map visit ss
  | SIf c t f => ve c ++ visit t ++ match f with Some x => visit x | None => [] end
  end.
End Visit.

Record fdef := mkfdef { nparams : nat; frefs : list bool; locals : list var; params : list var; body : stm }.
Definition remove_all (l : list var) (from : list var) : list var := filter (fun x => negb (existsb (Nat.eqb x) l)) from.
(* TypeChecker::visitFunction: collect over the body, then erase locals and parameters *)
Definition summarise (G : fenv) (d : fdef) : fsum :=
  {| changes := remove_all (locals d ++ params d) (visit (writes G) (body d));
     depends := remove_all (locals d ++ params d) (visit (reads G) (body d));
     refparam := frefs d |}.
(* functions are analysed in declaration order; a function sees the summaries of the earlier ones *)
Fixpoint summaries (ds : list fdef) (G : fenv) : fenv :=
  match ds with [] => G | d :: r => summaries r (G ++ [summarise G d]) end.

(* ---- specification: "evaluating e may write x", by unfolding the called functions' bodies ----------- *)
Section Spec.
Variable defs : list fdef.
Inductive MW : exp -> var -> Prop :=
  | MW_assign_root l r x : In x (roots l) -> MW (Assign l r) x
  | MW_assign_l l r x : MW l x -> MW (Assign l r) x
  | MW_assign_r l r x : MW r x -> MW (Assign l r) x
  | MW_incr_root p l x : In x (roots l) -> MW (Incr p l) x
  | MW_incr_sub p l x : MW l x -> MW (Incr p l) x
  | MW_op es e x : In e es -> MW e x -> MW (Op es) x
  | MW_dot a x : MW a x -> MW (Dot a) x
  | MW_idx_a a i x : MW a x -> MW (Idx a i) x
  | MW_idx_i a i x : MW i x -> MW (Idx a i) x
  | MW_ite_c c a b x : MW c x -> MW (Ite c a b) x
  | MW_ite_a c a b x : MW a x -> MW (Ite c a b) x
  | MW_ite_b c a b x : MW b x -> MW (Ite c a b) x
  | MW_comma_a a b x : MW a x -> MW (Comma a b) x
  | MW_comma_b a b x : MW b x -> MW (Comma a b) x
  | MW_call_arg f args a x : In a args -> MW a x -> MW (Call f args) x
  (* the body writes a variable that is neither a local nor a parameter of f *)
  | MW_call_global f args d x : nth_error defs f = Some d -> MWS (body d) x -> ~ In x (locals d ++ params d) -> MW (Call f args) x
  (* the body writes its i-th parameter, a non-const reference, and the argument may denote x *)
  | MW_call_ref f args d i p a x : nth_error defs f = Some d -> nth_error (params d) i = Some p -> nth_error (frefs d) i = Some true ->
      MWS (body d) p -> nth_error args i = Some a -> In x (roots a) -> MW (Call f args) x
with MWS : stm -> var -> Prop :=
  | MWS_expr e x : MW e x -> MWS (SExpr e) x
  | MWS_assert e x : MW e x -> MWS (SAssert e) x
  | MWS_return e x : MW e x -> MWS (SReturn e) x
  | MWS_for_i i c s b x : MW i x -> MWS (SFor i c s b) x
  | MWS_for_c i c s b x : MW c x -> MWS (SFor i c s b) x
  | MWS_for_s i c s b x : MW s x -> MWS (SFor i c s b) x
  | MWS_for_b i c s b x : MWS b x -> MWS (SFor i c s b) x
  | MWS_iter b x : MWS b x -> MWS (SIter b) x
  | MWS_while_c c b x : MW c x -> MWS (SWhile c b) x
  | MWS_while_b c b x : MWS b x -> MWS (SWhile c b) x
  | MWS_do_c c b x : MW c x -> MWS (SDo b c) x
  | MWS_do_b c b x : MWS b x -> MWS (SDo b c) x
  | MWS_block_init inits ss e x : In e inits -> MW e x -> MWS (SBlock inits ss) x
  | MWS_block_stm inits ss s x : In s ss -> MWS s x -> MWS (SBlock inits ss) x
  | MWS_if_c c t f x : MW c x -> MWS (SIf c t f) x
  | MWS_if_t c t f x : MWS t x -> MWS (SIf c t f) x
  | MWS_if_f c t f x : MWS f x -> MWS (SIf c t (Some f)) x.
End Spec.

(* ---- specification: "the value of e may depend on variable x" ------------------------------------------ *)
Section SpecR.
Variable defs : list fdef.
Inductive MR : exp -> var -> Prop :=
  | MR_var x : MR (Var x) x
  | MR_op es e x : In e es -> MR e x -> MR (Op es) x
  | MR_dot a x : MR a x -> MR (Dot a) x
  | MR_idx_a a i x : MR a x -> MR (Idx a i) x
  | MR_idx_i a i x : MR i x -> MR (Idx a i) x
  | MR_ite_c c a b x : MR c x -> MR (Ite c a b) x
  | MR_ite_a c a b x : MR a x -> MR (Ite c a b) x
  | MR_ite_b c a b x : MR b x -> MR (Ite c a b) x
  | MR_comma_a a b x : MR a x -> MR (Comma a b) x
  | MR_comma_b a b x : MR b x -> MR (Comma a b) x
  | MR_assign_l l r x : MR l x -> MR (Assign l r) x
  | MR_assign_r l r x : MR r x -> MR (Assign l r) x
  | MR_incr p l x : MR l x -> MR (Incr p l) x
  | MR_call_arg f args a x : In a args -> MR a x -> MR (Call f args) x
  | MR_call_global f args d x : nth_error defs f = Some d -> MRS (body d) x -> ~ In x (locals d ++ params d) -> MR (Call f args) x
with MRS : stm -> var -> Prop :=
  | MRS_expr e x : MR e x -> MRS (SExpr e) x
  | MRS_assert e x : MR e x -> MRS (SAssert e) x
  | MRS_return e x : MR e x -> MRS (SReturn e) x
  | MRS_for_i i c s b x : MR i x -> MRS (SFor i c s b) x
  | MRS_for_c i c s b x : MR c x -> MRS (SFor i c s b) x
  | MRS_for_s i c s b x : MR s x -> MRS (SFor i c s b) x
  | MRS_for_b i c s b x : MRS b x -> MRS (SFor i c s b) x
  | MRS_iter b x : MRS b x -> MRS (SIter b) x
  | MRS_while_c c b x : MR c x -> MRS (SWhile c b) x
  | MRS_while_b c b x : MRS b x -> MRS (SWhile c b) x
  | MRS_do_c c b x : MR c x -> MRS (SDo b c) x
  | MRS_do_b c b x : MRS b x -> MRS (SDo b c) x
  | MRS_block_init inits ss e x : In e inits -> MR e x -> MRS (SBlock inits ss) x
  | MRS_block_stm inits ss s x : In s ss -> MRS s x -> MRS (SBlock inits ss) x
  | MRS_if_c c t f x : MR c x -> MRS (SIf c t f) x
  | MRS_if_t c t f x : MRS t x -> MRS (SIf c t f) x
  | MRS_if_f c t f x : MRS f x -> MRS (SIf c t (Some f)) x.
End SpecR.
