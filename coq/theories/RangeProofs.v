From Utap Require Import RangeDefs.
From Coq Require Import ZifyBool FinFun.
Local Open Scope Z_scope.

Section P.
Variables lo hi : Z.

Lemma wrap_fits z : fits lo hi z -> wrap lo hi z = z.
Proof. unfold fits, wrap; intros H. rewrite Z.mod_small by lia. lia. Qed.

Ltac unf := unfold mem, nonempty, and_r, and_e, or_r, or_e, eq_e, r_le, r_ge, r_gt in *;
  unfold gt, lt, geq, leq, lower, raise,
  add_r, add_e, sub_r, sub_e, r_lt, contains, intersects, eq_r, single, empty,
  next_value, prev_value in *; cbn [start finish] in *.

(* ---- bound constraints --------------------------------------------------------------- *)
Lemma gt_spec r e x : fits lo hi (e + 1) -> mem x (gt lo hi r e) <-> mem x r /\ e < x.
Proof. intros F. unf. rewrite wrap_fits by exact F. lia. Qed.
Lemma lt_spec r e x : fits lo hi (e - 1) -> mem x (lt lo hi r e) <-> mem x r /\ x < e.
Proof. intros F. unf. rewrite wrap_fits by exact F. lia. Qed.
Lemma geq_spec r e x : mem x (geq r e) <-> mem x r /\ e <= x.
Proof. unf. lia. Qed.
Lemma leq_spec r e x : mem x (leq r e) <-> mem x r /\ x <= e.
Proof. unf. lia. Qed.

(* ---- intersection / convex union ------------------------------------------------------ *)
Lemma and_r_spec r o x : mem x (and_r r o) <-> mem x r /\ mem x o.
Proof. unf. lia. Qed.
Lemma and_e_spec r e x : mem x (and_e r e) <-> mem x r /\ x = e.
Proof. unf. lia. Qed.
(* convex hull: contains both operands, is contained in every interval containing both,
   and consists exactly of the points between two members of the union *)
Lemma or_r_hull r o x : nonempty r -> nonempty o ->
  mem x (or_r r o) <-> exists y z, (mem y r \/ mem y o) /\ (mem z r \/ mem z o) /\ y <= x <= z.
Proof.
  unf. intros Hr Ho. split.
  - intros H. exists (Z.min (start r) (start o)), (Z.max (finish r) (finish o)). lia.
  - intros (y & z & Hy & Hz & Hx). lia.
Qed.
Lemma or_e_hull r e x : nonempty r ->
  mem x (or_e r e) <-> exists y z, (mem y r \/ y = e) /\ (mem z r \/ z = e) /\ y <= x <= z.
Proof.
  unf. intros Hr. split.
  - intros H. exists (Z.min (start r) e), (Z.max (finish r) e). lia.
  - intros (y & z & Hy & Hz & Hx). lia.
Qed.

(* ---- arithmetic: soundness and tightness (both end points attained) ---------------------- *)
Definition tight (P : Z -> Prop) (res : range) : Prop :=
  (forall v, P v -> mem v res) /\ P (start res) /\ P (finish res).

Lemma add_r_tight r o : nonempty r -> nonempty o ->
  fits lo hi (start r + start o) -> fits lo hi (finish r + finish o) ->
  tight (fun v => exists x y, mem x r /\ mem y o /\ v = x + y) (add_r lo hi r o).
Proof.
  unfold tight. unf. intros Hr Ho F1 F2. rewrite !wrap_fits by assumption. repeat split.
  - destruct H as (a & b & ? & ? & ->). lia.
  - destruct H as (a & b & ? & ? & ->). lia.
  - exists (start r), (start o). lia.
  - exists (finish r), (finish o). lia.
Qed.
Lemma add_e_tight r e : nonempty r -> fits lo hi (start r + e) -> fits lo hi (finish r + e) ->
  tight (fun v => exists x, mem x r /\ v = x + e) (add_e lo hi r e).
Proof.
  unfold tight. unf. intros Hr F1 F2. rewrite !wrap_fits by assumption. repeat split.
  - destruct H as (a & ? & ->). lia.
  - destruct H as (a & ? & ->). lia.
  - exists (start r). lia.
  - exists (finish r). lia.
Qed.
Lemma sub_r_tight r o : nonempty r -> nonempty o ->
  fits lo hi (start r - finish o) -> fits lo hi (finish r - start o) ->
  tight (fun v => exists x y, mem x r /\ mem y o /\ v = x - y) (sub_r lo hi r o).
Proof.
  unfold tight. unf. intros Hr Ho F1 F2. rewrite !wrap_fits by assumption. repeat split.
  - destruct H as (a & b & ? & ? & ->). lia.
  - destruct H as (a & b & ? & ? & ->). lia.
  - exists (start r), (finish o). lia.
  - exists (finish r), (start o). lia.
Qed.
Lemma sub_e_tight r e : nonempty r -> fits lo hi (start r - e) -> fits lo hi (finish r - e) ->
  tight (fun v => exists x, mem x r /\ v = x - e) (sub_e lo hi r e).
Proof.
  unfold tight. unf. intros Hr F1 F2. rewrite !wrap_fits by assumption. repeat split.
  - destruct H as (a & ? & ->). lia.
  - destruct H as (a & ? & ->). lia.
  - exists (start r). lia.
  - exists (finish r). lia.
Qed.

(* the four-corner lemma: a product of two interval members lies between the extreme corners *)
Lemma corners a b c d x y : a <= x <= b -> c <= y <= d ->
  Z.min (Z.min (a*c) (a*d)) (Z.min (b*c) (b*d)) <= x*y <= Z.max (Z.max (a*c) (a*d)) (Z.max (b*c) (b*d)).
Proof.
  intros Hx Hy.
  assert (H1 : x*y <= Z.max (x*c) (x*d)) by (destruct (Z_le_gt_dec 0 x); nia).
  assert (H2 : Z.min (x*c) (x*d) <= x*y) by (destruct (Z_le_gt_dec 0 x); nia).
  assert (H3 : x*c <= Z.max (a*c) (b*c)) by (destruct (Z_le_gt_dec 0 c); nia).
  assert (H4 : x*d <= Z.max (a*d) (b*d)) by (destruct (Z_le_gt_dec 0 d); nia).
  assert (H5 : Z.min (a*c) (b*c) <= x*c) by (destruct (Z_le_gt_dec 0 c); nia).
  assert (H6 : Z.min (a*d) (b*d) <= x*d) by (destruct (Z_le_gt_dec 0 d); nia).
  lia.
Qed.

Lemma mul_r_tight r o : nonempty r -> nonempty o ->
  fits lo hi (start r * start o) -> fits lo hi (start r * finish o) ->
  fits lo hi (finish r * start o) -> fits lo hi (finish r * finish o) ->
  tight (fun v => exists x y, mem x r /\ mem y o /\ v = x * y) (mul_r lo hi r o).
Proof.
  unfold tight, mul_r. unf. intros Hr Ho F1 F2 F3 F4. rewrite !wrap_fits by assumption.
  cbn [start finish]. split; [|split].
  - intros v (x & y & Hx & Hy & ->). apply corners; assumption.
  - set (a := start r) in *. set (b := finish r) in *. set (c := start o) in *. set (d := finish o) in *.
    destruct (Z.min_spec (a*c) (a*d)) as [[_ E1]|[_ E1]];
    destruct (Z.min_spec (b*c) (b*d)) as [[_ E2]|[_ E2]]; rewrite E1, E2;
    match goal with |- context [Z.min ?p ?q] => destruct (Z.min_spec p q) as [[_ E3]|[_ E3]]; rewrite E3 end;
    first [exists a, c; unfold a, b, c, d; lia|exists a, d; unfold a, b, c, d; lia
          |exists b, c; unfold a, b, c, d; lia|exists b, d; unfold a, b, c, d; lia].
  - set (a := start r) in *. set (b := finish r) in *. set (c := start o) in *. set (d := finish o) in *.
    destruct (Z.max_spec (a*c) (a*d)) as [[_ E1]|[_ E1]];
    destruct (Z.max_spec (b*c) (b*d)) as [[_ E2]|[_ E2]]; rewrite E1, E2;
    match goal with |- context [Z.max ?p ?q] => destruct (Z.max_spec p q) as [[_ E3]|[_ E3]]; rewrite E3 end;
    first [exists a, c; unfold a, b, c, d; lia|exists a, d; unfold a, b, c, d; lia
          |exists b, c; unfold a, b, c, d; lia|exists b, d; unfold a, b, c, d; lia].
Qed.

Lemma mul_e_tight r e : nonempty r -> fits lo hi (start r * e) -> fits lo hi (finish r * e) ->
  tight (fun v => exists x, mem x r /\ v = x * e) (mul_e lo hi r e).
Proof.
  unfold tight, mul_e. unf. intros Hr F1 F2. rewrite !wrap_fits by assumption.
  destruct (finish r * e <? start r * e) eqn:E; cbn [start finish]; (split; [|split]).
  - intros v (x & Hx & ->). assert (e < 0) by nia. nia.
  - exists (finish r). lia.
  - exists (start r). lia.
  - intros v (x & Hx & ->). destruct (Z.eq_dec (start r) (finish r)) as [Q|Q].
    + assert (x = start r) by lia. subst x. rewrite <- Q. lia.
    + assert (0 <= e) by nia. nia.
  - exists (start r). lia.
  - exists (finish r). lia.
Qed.

(* ---- predicates ------------------------------------------------------------------------ *)
Lemma contains_spec r e : contains r e = true <-> mem e r.
Proof. unf. lia. Qed.
Lemma intersects_spec r o : nonempty r -> nonempty o ->
  intersects r o = true <-> exists x, mem x r /\ mem x o.
Proof.
  unf. intros Hr Ho. destruct (start r <=? start o) eqn:E; split.
  - intros H. exists (start o). lia.
  - intros (x & H). lia.
  - intros H. exists (start r). lia.
  - intros (x & H). lia.
Qed.
Lemma eq_r_spec r o : eq_r r o = true <-> (forall x, mem x r <-> mem x o).
Proof.
  unf. destruct (finish r <? start r) eqn:E1; destruct (finish o <? start o) eqn:E2; cbn; split; intros H;
    try lia; try (intros x; lia); try reflexivity.
  - exfalso. specialize (H (start o)). lia.
  - exfalso. specialize (H (start r)). lia.
  - pose proof (H (start r)). pose proof (H (finish r)). pose proof (H (start o)). pose proof (H (finish o)). lia.
Qed.
Lemma eq_e_spec r e : eq_e r e = true <-> (forall x, mem x r <-> x = e).
Proof.
  unfold eq_e. rewrite eq_r_spec. unfold single, mem; cbn. split; intros H x; specialize (H x); lia.
Qed.
Lemma r_lt_spec r o : nonempty r -> nonempty o ->
  r_lt r o = true <-> (forall x y, mem x r -> mem y o -> x < y).
Proof.
  unf. intros Hr Ho. split.
  - intros H x y Hx Hy. lia.
  - intros H. specialize (H (finish r) (start o)). lia.
Qed.
Lemma r_gt_spec r o : nonempty r -> nonempty o ->
  r_gt r o = true <-> (forall x y, mem x r -> mem y o -> x > y).
Proof.
  unf. intros Hr Ho. split.
  - intros H x y Hx Hy. lia.
  - intros H. specialize (H (start r) (finish o)). lia.
Qed.
Lemma r_le_spec r o : r_le r o = negb (r_gt r o). Proof. reflexivity. Qed.
Lemma r_ge_spec r o : r_ge r o = negb (r_lt r o). Proof. reflexivity. Qed.

(* ---- size -------------------------------------------------------------------------------- *)
Lemma members_spec r x : In x (members r) <-> mem x r.
Proof.
  unfold members, mem. rewrite in_map_iff. split.
  - intros (i & <- & Hi). apply in_seq in Hi. lia.
  - intros H. exists (Z.to_nat (x - start r)). split; [lia|]. apply in_seq. lia.
Qed.
Lemma members_nodup r : NoDup (members r).
Proof.
  unfold members. apply FinFun.Injective_map_NoDup; [|apply seq_NoDup].
  intros a b H. lia.
Qed.
Lemma size_spec r : finish r - start r < 2^32 - 1 -> size r = Z.of_nat (length (members r)).
Proof.
  intros H. unfold size, members, empty. rewrite map_length, seq_length.
  destruct (finish r <? start r) eqn:E.
  - lia.
  - rewrite Z.mod_small by lia. lia.
Qed.
End P.
