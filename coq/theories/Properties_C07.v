(* C07 — identifiers bind to the innermost preceding declaration in scope.
   Only statements, each closed by a lemma of ScopeProofs.v, with the axioms it rests on. *)
From Coq Require Import List Arith.
From Coq Require Import ZArith Permutation.
From Utap Require Import Scope ScopeProofs DotModel DotProofs.
From Utap Require DynScope.
Import ListNotations.

(* For every text (any nesting of scopes, any number of declarations and uses, names redeclared at any level and within a
   level), the frames / name-to-last-index maps / parent chain of the builder give every use the declaration the textbook rule
   gives it: the nearest preceding declaration of that name in the nearest enclosing scope that has one — and none otherwise. *)
Theorem C07_resolve_is_binds : forall its : list item, fst (walk (size its) its [empty_frame]) = spec (size its) its [] [].
Proof. exact resolve_is_binds. Qed.
Print Assumptions C07_resolve_is_binds.

(* the rule itself: the chosen declaration has the use's name and no nearer declaration of that name precedes the use in
   that scope; "unknown" is reported exactly when no enclosing scope declared the name before the use *)
Theorem C07_nearest : forall ds n d, nearest ds n = Some d -> exists a b, ds = a ++ (n, d) :: b /\ forall d', ~ In (n, d') a.
Proof. exact nearest_sound. Qed.
Print Assumptions C07_nearest.
Theorem C07_unknown_iff_undeclared : forall env n, binds env n = None <-> forall sc d, In sc env -> ~ In (n, d) sc.
Proof. exact binds_none. Qed.
Print Assumptions C07_unknown_iff_undeclared.

(* scopes are balanced on fault-free texts: after the walk only the outermost frame is left *)
Theorem C07_frames_balanced : forall its : list item, length (snd (walk (size its) its [empty_frame])) = 1.
Proof. exact walk_balanced. Qed.
Print Assumptions C07_frames_balanced.

(* ---- process-qualified names (expr_dot on a process) ----
   P.x selects a member of the frame of P's template only (first symbol of that name; never a global), a location reads as bool,
   and any other member gets its declared type with the template's scalar-set label renamed to the process and the arguments of
   the whole instantiation chain substituted *)
Theorem C07_qualified_member : forall (p : proc) x i t, dot p x = Some (i, t) ->
  exists t0, nth_error (p_frame p) i = Some (x, t0) /\ (forall j b, j < i -> nth_error (p_frame p) j = Some b -> fst b <> x) /\
             t = if is_loc t0 then TBool else subst_rounds (p_map p) (trename (p_templ p) (p_id p) t0).
Proof. exact dot_sound. Qed.
Print Assumptions C07_qualified_member.
Theorem C07_qualified_only_template_members : forall (p : proc) x, dot p x = None <-> ~ In x (map fst (p_frame p)).
Proof. exact dot_none_iff. Qed.
Print Assumptions C07_qualified_only_template_members.
(* it is the declaration an unqualified x resolves to inside the template's own frame (the frame and its name-to-last-index map of
   Scope.v), whenever the frame declares no name twice *)
Theorem C07_qualified_is_the_template_declaration : forall (f : frame) (ds : list (name * did)) x,
  rep f ds -> NoDup (map fst ds) -> first_member (f_syms f) x = frame_lookup f x.
Proof. exact qualified_is_unqualified. Qed.
Print Assumptions C07_qualified_is_the_template_declaration.
(* "with P's arguments substituted": m is the instantiation chain of P, innermost template first (each argument may mention the
   parameters of the levels wrapped around it); the library holds it as a map ordered by symbol address, so p_map p is any
   permutation of m.  Under any meaning of literals and operators, each bound of the type of P.x denotes what the declared bound
   denotes once every parameter of the chain has the value of its argument *)
Theorem C07_qualified_arguments_substituted : forall (p : proc) (m : list (sym * bexp)) x i t t0,
  triangular m -> Permutation m (p_map p) ->
  dot p x = Some (i, t) -> nth_error (p_frame p) i = Some (x, t0) -> is_loc t0 = false ->
  length (bounds_of t) = length (bounds_of t0) /\
  forall V lit opsem r k b b', nth_error (bounds_of t0) k = Some b -> nth_error (bounds_of t) k = Some b' ->
    beval V lit opsem r b' = beval V lit opsem (env_of V lit opsem m r) b.
Proof. exact dot_bound_meaning. Qed.
Print Assumptions C07_qualified_arguments_substituted.
(* the passes of expr_dot compute the substitution of the chain whatever the iteration order of the map *)
Theorem C07_qualified_order_independent : forall m m' b, triangular m -> Permutation m m' -> bsubst_rounds m' b = bsubst_all m b.
Proof. exact rounds_any_order. Qed.
Print Assumptions C07_qualified_order_independent.
(* and no parameter of the chain survives in the type *)
Theorem C07_qualified_no_parameter_left : forall (p : proc) (m : list (sym * bexp)) x i t b y,
  triangular m -> Permutation m (p_map p) -> dot p x = Some (i, t) -> In b (bounds_of t) -> In y (fv b) -> ~ In y (map fst m).
Proof. exact dot_no_parameter_left. Qed.
Print Assumptions C07_qualified_no_parameter_left.

(* Binders over dynamic templates (DynScope.v: the builder's map from binder names to stacks of template frames): every p.member is looked up in the template of
   the innermost enclosing binder named p, for every nesting and every reuse of binder names; the state is back to the enclosing environment behind each
   quantifier.  (With one frame per name, as before repair d15ca7f, an enclosing binder of the same name is lost: the example.) *)
Theorem C07_dynamic_binders_innermost : forall e, fst (DynScope.walk (fun _ => []) e) = DynScope.spec [] e.
Proof. exact DynScope.walk_is_spec. Qed.
Print Assumptions C07_dynamic_binders_innermost.
Theorem C07_dynamic_binders_any_context : forall e env d, DynScope.same d (DynScope.repr env) ->
  fst (DynScope.walk d e) = DynScope.spec env e /\ DynScope.same (snd (DynScope.walk d e)) (DynScope.repr env).
Proof. exact DynScope.walk_correct. Qed.
Print Assumptions C07_dynamic_binders_any_context.
Example C07_dynamic_example :
  let e := DynScope.DQuant 0 1 (DynScope.DNode [DynScope.DQuant 0 2 (DynScope.DMember 0); DynScope.DMember 0]) in
  fst (DynScope.walk (fun _ => []) e) = [Some 2; Some 1] /\ fst (DynScope.walk1 (fun _ => None) e) = [Some 2; None].
Proof. repeat split. Qed.

Example C07_example :
  (* a; use a; { use a; a'; use a; { use a; use b } } use a; a''; use a   with a global b declared last *)
  let its := [Decl 1 10; Use 1; Scope [Use 1; Decl 1 11; Use 1; Scope [Use 1; Use 2]]; Use 1; Decl 1 12; Use 1; Decl 2 20] in
  fst (walk (size its) its [empty_frame]) = [Some 10; Some 10; Some 11; Some 11; None; Some 10; Some 12].
Proof. vm_compute. reflexivity. Qed.
