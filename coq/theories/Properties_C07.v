(* C07 — identifiers bind to the innermost preceding declaration in scope.
   Only statements, each closed by a lemma of ScopeProofs.v, with the axioms it rests on. *)
From Coq Require Import List Arith.
From Utap Require Import Scope ScopeProofs.
Import ListNotations.

(* For every text (any nesting of scopes, any number of declarations and uses, names redeclared at any level and within a
   level), the frames / name-to-last-index maps / parent chain of the builder give every use the declaration the textbook rule
   gives it: the nearest preceding declaration of that name in the nearest enclosing scope that has one — and none otherwise. *)
Theorem C07_resolve_is_binds : forall its : list item, fst (walk (size its) its [empty_frame]) = spec (size its) its [] [].
Proof. exact resolve_is_binds. Qed.
Print Assumptions C07_resolve_is_binds.

(* the rule itself: the chosen declaration has the use's name and no nearer declaration of that name precedes the use in
   that scope; "unknown" is reported exactly when no enclosing scope declared the name before the use *)
Theorem C07_nearest : forall ds n d, nearest ds n = Some d -> exists a b, ds = a ++ (n, d) :: b /\ forall d', ~ In (n, d') a.
Proof. exact nearest_sound. Qed.
Print Assumptions C07_nearest.
Theorem C07_unknown_iff_undeclared : forall env n, binds env n = None <-> forall sc d, In sc env -> ~ In (n, d) sc.
Proof. exact binds_none. Qed.
Print Assumptions C07_unknown_iff_undeclared.

(* scopes are balanced on fault-free texts: after the walk only the outermost frame is left *)
Theorem C07_frames_balanced : forall its : list item, length (snd (walk (size its) its [empty_frame])) = 1.
Proof. exact walk_balanced. Qed.
Print Assumptions C07_frames_balanced.

Example C07_example :
  (* a; use a; { use a; a'; use a; { use a; use b } } use a; a''; use a   with a global b declared last *)
  let its := [Decl 1 10; Use 1; Scope [Use 1; Decl 1 11; Use 1; Scope [Use 1; Use 2]]; Use 1; Decl 1 12; Use 1; Decl 2 20] in
  fst (walk (size its) its [empty_frame]) = [Some 10; Some 10; Some 11; Some 11; None; Some 10; Some 12].
Proof. vm_compute. reflexivity. Qed.
