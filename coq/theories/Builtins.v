(* C03: the names of builtin functions.  A call f(e1, .., en) of a builtin function is parsed through three tables - the keyword table
   (word -> token), the grammar (token -> node kind) - and printed through a fourth, a name array indexed by the position of the kind
   in kind_t (one copy in expression.cpp for str(), one in prettyprinter.cpp).  gen/Gen_Builtins.v holds the four as they are in the
   tree today; the check below says that they compose to the identity: every builtin call prints under the word it was written with,
   so the printed text re-parses to the same kind. *)
From Coq Require Import List String Arith Bool.
Import ListNotations.

Definition row := (string * string * string * nat * nat)%type.
Definition printed_name (names : list string) (base : nat) (r : row) : option string :=
  let '(_, _, _, _, idx) := r in if base <=? idx then nth_error names (idx - base) else None.
Definition word_of (r : row) : string := let '(w, _, _, _, _) := r in w.
Definition kind_of (r : row) : string := let '(_, _, k, _, _) := r in k.
Definition names_roundtrip (rows : list row) (names : list string) (base : nat) : bool :=
  forallb (fun r => match printed_name names base r with Some n => String.eqb n (word_of r) | None => false end) rows.
(* two words for the same kind could not both round-trip, and two kinds printing as the same word would be confused on re-parsing *)
Fixpoint distinct (l : list string) : bool := match l with [] => true | x :: r => negb (existsb (String.eqb x) r) && distinct r end.
Definition tables_ok (rows : list row) (names : list string) (base : nat) : bool :=
  names_roundtrip rows names base && distinct (map word_of rows) && distinct (map kind_of rows) && (List.length names =? List.length rows).

(* what the check means: printing after parsing is the identity on builtin names, and parsing after printing on kinds *)
Theorem roundtrip_spec rows names base : tables_ok rows names base = true ->
  (forall r, In r rows -> printed_name names base r = Some (word_of r)) /\
  (forall r1 r2, In r1 rows -> In r2 rows -> printed_name names base r1 = printed_name names base r2 -> kind_of r1 = kind_of r2).
Proof.
  unfold tables_ok. rewrite !andb_true_iff. intros [[[Hr Hw] Hk] _]. unfold names_roundtrip in Hr. rewrite forallb_forall in Hr.
  assert (forall r, In r rows -> printed_name names base r = Some (word_of r)) as H1.
  { intros r Hin. specialize (Hr r Hin). destruct (printed_name names base r) as [n|]; [|discriminate]. apply String.eqb_eq in Hr. now subst. }
  split; [exact H1|]. intros r1 r2 H1i H2i E. rewrite (H1 r1 H1i), (H1 r2 H2i) in E. injection E as E.
  (* distinct words: the same word means the same row *)
  clear - Hw H1i H2i E. induction rows as [|r rows IH]; [destruct H1i|]. cbn in Hw. apply andb_prop in Hw as [Hn Hd].
  assert (forall x, In x rows -> word_of x <> word_of r) as Hne.
  { intros x Hx Ex. apply negb_true_iff in Hn. rewrite <- not_true_iff_false in Hn. apply Hn. apply existsb_exists. exists (word_of x).
    split; [apply in_map, Hx | apply String.eqb_eq; now symmetry]. }
  destruct H1i as [<-|H1i], H2i as [<-|H2i]; [reflexivity | exfalso; apply (Hne _ H2i); now symmetry | exfalso; apply (Hne _ H1i); exact E | apply (IH Hd H1i H2i)].
Qed.
