(* Driver for the effects model.  Input lines:
     D (fdef nparams (refs b..) (locals v..) (params v..) stm)     -- declare the next function
     R                                                             -- reset
     S                                                             -- print the summaries: "F <i> changes=<sorted ids> depends=<sorted ids>"
     W <exp>                                                       -- "W <sorted ids> | <sorted ids>"  (writes | reads)
   exp ::= (v n) | (lit) | (op e..) | (dot e) | (idx a i) | (ite c a b) | (comma a b) | (asg l r) | (inc p l) | (call f e..)
   stm ::= (expr e) | (assert e) | (ret e) | (empty) | (for i c s b) | (iter b) | (while c b) | (do b c) | (block (inits e..) s..) | (if c t) | (ife c t f) *)
open Model_effects
type sx = At of string | L of sx list
let parse_sx (s : string) : sx =
  let n = String.length s in
  let pos = ref 0 in
  let rec skip () = while !pos < n && s.[!pos] = ' ' do incr pos done
  and item () =
    skip ();
    if s.[!pos] = '(' then begin
      incr pos; let items = ref [] in skip ();
      while s.[!pos] <> ')' do items := item () :: !items; skip () done;
      incr pos; L (List.rev !items)
    end else begin
      let st = !pos in
      while !pos < n && s.[!pos] <> ' ' && s.[!pos] <> ')' && s.[!pos] <> '(' do incr pos done;
      At (String.sub s st (!pos - st))
    end in
  item ()
let rec nat_of_int n = if n <= 0 then O else S (nat_of_int (n - 1))
let rec int_of_nat = function O -> 0 | S n -> 1 + int_of_nat n
let num = function At s -> nat_of_int (int_of_string s) | _ -> failwith "num"
let bl = function At "1" -> true | At "0" -> false | _ -> failwith "bool"
let rec exp = function
  | L [At "v"; n] -> Var (num n) | L [At "lit"] -> Lit
  | L (At "op" :: es) -> Op (List.map exp es) | L [At "dot"; e] -> Dot (exp e) | L [At "idx"; a; i] -> Idx (exp a, exp i)
  | L [At "ite"; c; a; b] -> Ite (exp c, exp a, exp b) | L [At "comma"; a; b] -> Comma (exp a, exp b)
  | L [At "asg"; l; r] -> Assign (exp l, exp r) | L [At "inc"; p; l] -> Incr (bl p, exp l)
  | L (At "call" :: f :: es) -> Call (num f, List.map exp es)
  | _ -> failwith "exp"
let rec stm = function
  | L [At "expr"; e] -> SExpr (exp e) | L [At "assert"; e] -> SAssert (exp e) | L [At "ret"; e] -> SReturn (exp e) | L [At "empty"] -> SEmpty
  | L [At "for"; i; c; s; b] -> SFor (exp i, exp c, exp s, stm b) | L [At "iter"; b] -> SIter (stm b)
  | L [At "while"; c; b] -> SWhile (exp c, stm b) | L [At "do"; b; c] -> SDo (stm b, exp c)
  | L (At "block" :: L (At "inits" :: is) :: ss) -> SBlock (List.map exp is, List.map stm ss)
  | L [At "if"; c; t] -> SIf (exp c, stm t, None) | L [At "ife"; c; t; f] -> SIf (exp c, stm t, Some (stm f))
  | _ -> failwith "stm"
let lst = function L (At _ :: r) -> r | _ -> failwith "list"
let fdef = function
  | L [At "fdef"; n; refs; locs; pars; b] -> { nparams = num n; frefs = List.map bl (lst refs); locals = List.map num (lst locs); params = List.map num (lst pars); body = stm b }
  | _ -> failwith "fdef"
let show l = String.concat "," (List.map string_of_int (List.sort_uniq compare (List.map int_of_nat l)))
let () =
  let defs = ref [] in
  try while true do
    let line = input_line stdin in
    if String.length line >= 1 then begin
      let body = if String.length line > 2 then String.sub line 2 (String.length line - 2) else "" in
      match line.[0] with
      | 'R' -> defs := []
      | 'D' -> defs := !defs @ [fdef (parse_sx body)]
      | 'S' -> let g = summaries !defs [] in List.iteri (fun i s -> Printf.printf "F %d changes=%s depends=%s\n" i (show s.changes) (show s.depends)) g
      | 'W' -> let g = summaries !defs [] in let e = exp (parse_sx body) in Printf.printf "W %s | %s\n" (show (writes g e)) (show (reads g e))
      | _ -> ()
    end
  done with End_of_file -> ()
