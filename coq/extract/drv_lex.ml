(* input: one text per line, hex encoded; output: the tokens "K:hex" separated by blanks (K = I identifier, N natural, F float, S string,
   E error, L<token> literal), or UNCLOSED *)
open Model_lex
let rec nat_of_int n = if n <= 0 then O else S (nat_of_int (n - 1))
let bit n k = (n lsr k) land 1 = 1
let ascii_of_int n = Ascii (bit n 0, bit n 1, bit n 2, bit n 3, bit n 4, bit n 5, bit n 6, bit n 7)
let int_of_ascii (Ascii (a, b, c, d, e, f, g, h)) =
  let v x k = if x then 1 lsl k else 0 in v a 0 + v b 1 + v c 2 + v d 3 + v e 4 + v f 5 + v g 6 + v h 7
let unhex s = List.init (Stdlib.String.length s / 2) (fun i -> ascii_of_int (int_of_string ("0x" ^ Stdlib.String.sub s (2 * i) 2)))
let hex l = Stdlib.String.concat "" (List.map (fun c -> Printf.sprintf "%02x" (int_of_ascii c)) l)
let rec str_of = function EmptyString -> "" | String (c, r) -> Stdlib.String.make 1 (Char.chr (int_of_ascii c)) ^ str_of r
let show (k, t) = (match k with KIdent -> "I" | KNum -> "N" | KFloat -> "F" | KString -> "S" | KError -> "E" | KLf -> "NL" | KCrLf -> "NL" | KLit tok -> "L" ^ str_of tok) ^ ":" ^ hex t
let () =
  try while true do
    let line = Stdlib.String.trim (input_line stdin) in
    let t = unhex line in
    match lex_gen (nat_of_int (List.length t + 2)) t with
    | Some r -> print_endline (Stdlib.String.concat " " (List.map show r))
    | None -> print_endline "UNCLOSED"
  done with End_of_file -> ()
