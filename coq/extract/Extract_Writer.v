From Coq Require Import Extraction ExtrOcamlBasic List String.
From Utap Require Import WriterModel.
Extraction Language OCaml.
Extraction "model_writer.ml" write_templ read_templ graph_of wf_templ.
