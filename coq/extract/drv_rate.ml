(* input, one label per line, prefix form:  F <cls> <lt> <id> | A e e | O e e | Q e | R <cost> <left> <id> <cls>      cls ::= I B D K V W G C
   output: acc=<0|1> plain=<0|1> inv=<e>,<e>,.. cost=<id|-> ncost=<n> clock=<0|1> strict=<0|1>   (expressions in the input form) *)
open Model_rate
let rec nat_of_int n = if n <= 0 then O else S (nat_of_int (n - 1))
let rec int_of_nat = function O -> 0 | S n -> 1 + int_of_nat n
let toks = ref []
let next () = match !toks with t :: r -> toks := r; t | [] -> failwith "eol"
let num () = int_of_string (next ())
let cls_of = function "I" -> CInt | "B" -> CBool | "D" -> CDouble | "K" -> CClock | "V" -> CInvariant | "W" -> CInvariantWR | "G" -> CGuard | "C" -> CConstraint | t -> failwith ("cls " ^ t)
let cls_to = function CInt -> "I" | CBool -> "B" | CDouble -> "D" | CClock -> "K" | CInvariant -> "V" | CInvariantWR -> "W" | CGuard -> "G" | CConstraint -> "C" | _ -> "?"
let b () = num () <> 0
let rec lexp () = match next () with
  | "F" -> let c = cls_of (next ()) in let lt = b () in let id = num () in LLeaf (c, lt, nat_of_int id)
  | "A" -> let x = lexp () in let y = lexp () in LAnd (x, y)
  | "O" -> let x = lexp () in let y = lexp () in LOr (x, y)
  | "Q" -> LForall (lexp ())
  | "R" -> let c = b () in let l = b () in let id = num () in let r = cls_of (next ()) in LRate (c, l, nat_of_int id, r)
  | t -> failwith ("lexp " ^ t)
let bs x = if x then "1" else "0"
let rec show = function
  | LLeaf (c, lt, id) -> Printf.sprintf "F %s %s %d" (cls_to c) (bs lt) (int_of_nat id)
  | LAnd (x, y) -> "A " ^ show x ^ " " ^ show y
  | LOr (x, y) -> "O " ^ show x ^ " " ^ show y
  | LForall x -> "Q " ^ show x
  | LRate (c, l, id, r) -> Printf.sprintf "R %s %s %d %s" (bs c) (bs l) (int_of_nat id) (cls_to r)
let () =
  try while true do
    let line = input_line stdin in
    toks := List.filter (fun w -> w <> "") (Stdlib.String.split_on_char ' ' line);
    (try
      let e = lexp () in
      let s = decompose e false d0 in
      Printf.printf "acc=%s\tplain=%s\tinv=%s\tcost=%s\tncost=%d\tclock=%s\tstrict=%s\n" (bs (accepted e)) (bs (plain e))
        (Stdlib.String.concat "," (List.map show s.inv)) (match s.cost with Some i -> string_of_int (int_of_nat i) | None -> "-") (int_of_nat s.ncost) (bs s.clockrates) (bs s.strict)
    with Failure m -> print_endline ("ERR " ^ m))
  done with End_of_file -> ()
