From Coq Require Import Extraction ExtrOcamlBasic List Ascii String.
From Utap Require Import CommentLex LexModel LexStable.
From Utap.gen Require Import Gen_LexRules.
Definition ends_gen (fuel : nat) (s : text) := ends gen_literals fuel s.
Extraction Language OCaml.
Extraction "model_ends.ml" ends_gen.
