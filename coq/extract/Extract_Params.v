From Coq Require Import Extraction ExtrOcamlBasic List.
From Utap Require Import ParamModel.
Extraction Language OCaml.
Extraction "model_params.ml" prun cbs spec.
