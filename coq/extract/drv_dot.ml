(* input, one process per line:
     <pid> <templ> F <n> {<name> <ty>}n M <k> {<sym> <bexp>}k Q <q> {<name>}q
   ty ::= R bexp bexp | K bexp bexp | C | B | U | O | S <owner> bexp | X <shape> <k> bexp*k      bexp ::= L <z> | V <sym> | ( <op> <k> bexp*k   (prefix)
   output: one line, the results of the q queries separated by " ; " : "-" or "<index> <ty>" *)
open Model_dot
let rec nat_of_int n = if n <= 0 then O else S (nat_of_int (n - 1))
let rec int_of_nat = function O -> 0 | S n -> 1 + int_of_nat n
let rec pos_of_int n = if n = 1 then XH else if n land 1 = 0 then XO (pos_of_int (n lsr 1)) else XI (pos_of_int (n lsr 1))
let z_of_int n = if n = 0 then Z0 else if n > 0 then Zpos (pos_of_int n) else Zneg (pos_of_int (-n))
let rec int_of_pos = function XH -> 1 | XO p -> 2 * int_of_pos p | XI p -> 2 * int_of_pos p + 1
let int_of_z = function Z0 -> 0 | Zpos p -> int_of_pos p | Zneg p -> - (int_of_pos p)
let toks = ref []
let next () = match !toks with t :: r -> toks := r; t | [] -> failwith "eol"
let num () = int_of_string (next ())
let rec bexp () = match next () with
  | "L" -> BLit (z_of_int (num ()))
  | "V" -> BVar (nat_of_int (num ()))
  | "(" -> let o = num () in let k = num () in let rec args n = if n <= 0 then [] else let a = bexp () in a :: args (n - 1) in BOp (nat_of_int o, args k)
  | t -> failwith ("bexp " ^ t)
let ty () = match next () with
  | "R" -> let a = bexp () in let b = bexp () in TRange (a, b) | "K" -> let a = bexp () in let b = bexp () in TConstRange (a, b) | "C" -> TClock | "B" -> TBool | "U" -> TFun | "O" -> TLoc
  | "S" -> let o = num () in TScalar (nat_of_int o, bexp ())
  | "X" -> let sh = num () in let k = num () in let rec bs n = if n <= 0 then [] else let a = bexp () in a :: bs (n - 1) in TShape (nat_of_int sh, bs k)
  | t -> failwith ("ty " ^ t)
let rec show_b = function
  | BLit z -> "L " ^ string_of_int (int_of_z z) | BVar s -> "V " ^ string_of_int (int_of_nat s)
  | BOp (o, args) -> "( " ^ string_of_int (int_of_nat o) ^ " " ^ string_of_int (List.length args) ^ Stdlib.String.concat "" (List.map (fun a -> " " ^ show_b a) args)
let show_t = function
  | TRange (a, b) -> "R " ^ show_b a ^ " " ^ show_b b | TConstRange (a, b) -> "K " ^ show_b a ^ " " ^ show_b b | TClock -> "C" | TBool -> "B" | TFun -> "U" | TLoc -> "O"
  | TScalar (o, b) -> "S " ^ string_of_int (int_of_nat o) ^ " " ^ show_b b
  | TShape (sh, bs) -> "X " ^ string_of_int (int_of_nat sh) ^ " " ^ string_of_int (List.length bs) ^ Stdlib.String.concat "" (List.map (fun a -> " " ^ show_b a) bs)
let rec times n f = if n <= 0 then [] else let x = f () in x :: times (n - 1) f
let expect s = let t = next () in if t <> s then failwith ("expected " ^ s ^ " got " ^ t)
let () =
  try while true do
    let line = input_line stdin in
    toks := List.filter (fun w -> w <> "") (Stdlib.String.split_on_char ' ' line);
    let pid = num () in let templ = num () in
    expect "F"; let n = num () in
    let frame = times n (fun () -> let nm = num () in let t = ty () in (nat_of_int nm, t)) in
    expect "M"; let k = num () in
    let mp = times k (fun () -> let s = num () in let b = bexp () in (nat_of_int s, b)) in
    expect "Q"; let q = num () in
    let qs = times q (fun () -> num ()) in
    let p = { p_id = nat_of_int pid; p_templ = nat_of_int templ; p_frame = frame; p_map = mp } in
    let res = List.map (fun x -> match dot p (nat_of_int x) with None -> "-" | Some (i, t) -> string_of_int (int_of_nat i) ^ " " ^ show_t t) qs in
    print_endline (Stdlib.String.concat " ; " res)
  done with End_of_file -> ()
