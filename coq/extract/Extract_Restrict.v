From Coq Require Import Extraction ExtrOcamlBasic List.
From Utap Require Import DotModel RestrictModel.
Extraction Language OCaml.
Extraction "model_restrict.ml" restrict_chain size_after fv.
