From Coq Require Import Extraction ExtrOcamlBasic List Ascii.
From Utap Require Import CommentLex.
Extraction Language OCaml.
Extraction "model_comment.ml" strip scan.
