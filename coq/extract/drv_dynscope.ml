(* input, one expression per line:  M <p> | Q <p> <t> e | N <k> e*k     output: "W a a .. | S a a .." (stack implementation | specification), a = template or "-" *)
open Model_dynscope
let rec nat_of_int n = if n <= 0 then O else S (nat_of_int (n - 1))
let rec int_of_nat = function O -> 0 | S n -> 1 + int_of_nat n
let toks = ref []
let next () = match !toks with t :: r -> toks := r; t | [] -> failwith "eol"
let num () = int_of_string (next ())
let rec dexp () = match next () with
  | "M" -> DMember (nat_of_int (num ()))
  | "Q" -> let p = num () in let t = num () in let b = dexp () in DQuant (nat_of_int p, nat_of_int t, b)
  | "N" -> let k = num () in let rec args n = if n <= 0 then [] else let a = dexp () in a :: args (n - 1) in DNode (args k)
  | t -> failwith ("dexp " ^ t)
let show l = Stdlib.String.concat " " (List.map (function Some t -> string_of_int (int_of_nat t) | None -> "-") l)
let () =
  try while true do
    let line = input_line stdin in
    toks := List.filter (fun w -> w <> "") (Stdlib.String.split_on_char ' ' line);
    (try let e = dexp () in print_endline ("W " ^ show (fst (walk (fun _ -> []) e)) ^ " | S " ^ show (spec [] e))
     with Failure m -> print_endline ("ERR " ^ m))
  done with End_of_file -> ()
