(* Extraction of the executable range model (C18).  ExtrOcamlBasic only: bool, option, list,
   prod, unit, sumbool map to OCaml natives; Z / positive stay the extracted inductives. *)
From Coq Require Import Extraction ExtrOcamlBasic.
From Utap Require Import RangeDefs.
Extraction Language OCaml.
Extraction "model_c18.ml" start finish wrap next_value prev_value empty lower raise or_e or_r gt lt geq leq and_r and_e
  add_r add_e sub_r sub_e mul_r mul_e intersects contains eq_r eq_e size r_lt r_gt r_le r_ge.
