(* input : one text per line:  items ::= d<name>,<id> | u<name> | ( items ) separated by blanks
   output: "S b b b ..." (specification) and "W b b b ..." (frame implementation); b = declaration id or "-" *)
open Model_scope
let rec nat_of_int n = if n <= 0 then O else S (nat_of_int (n - 1))
let rec int_of_nat = function O -> 0 | S n -> 1 + int_of_nat n
let parse (s : Stdlib.String.t) : item list =
  let toks = List.filter (fun w -> w <> "") (Stdlib.String.split_on_char ' ' s) in
  let rec items ts = match ts with
    | [] -> ([], [])
    | ")" :: r -> ([], r)
    | "(" :: r -> let (b, r1) = items r in let (rest, r2) = items r1 in (Scope b :: rest, r2)
    | w :: r ->
      let body = Stdlib.String.sub w 1 (Stdlib.String.length w - 1) in
      let it = if w.[0] = 'd' then (match Stdlib.String.split_on_char ',' body with [n; d] -> Decl (nat_of_int (int_of_string n), nat_of_int (int_of_string d)) | _ -> failwith "decl")
               else Use (nat_of_int (int_of_string body)) in
      let (rest, r2) = items r in (it :: rest, r2) in
  fst (items toks)
let show l = Stdlib.String.concat " " (List.map (function Some d -> string_of_int (int_of_nat d) | None -> "-") l)
let () =
  try while true do
    let line = input_line stdin in
    let its = parse line in
    let n = size its in
    print_endline ("S " ^ show (spec n its [] []));
    print_endline ("W " ^ show (fst (walk n its [empty_frame])))
  done with End_of_file -> ()
