(* lv ::= (id ty) | (dot p lv) | (idx lv) | (ite a b e) | (comma lv) | (write lv) | (other)
   ty ::= (base) | (const t) | (prefix t) | (ref t) | (label t) | (range t) | (array t) | (record t..) | (function) | (process)
   each input line "M <lv>" prints "M modifiable=<0|1> checked=<0|1>" *)
open Model_constness
type sx = At of string | L of sx list
let parse_sx (s : string) : sx =
  let n = String.length s in
  let pos = ref 0 in
  let rec skip () = while !pos < n && s.[!pos] = ' ' do incr pos done
  and item () =
    skip ();
    if s.[!pos] = '(' then begin
      incr pos; let items = ref [] in skip ();
      while s.[!pos] <> ')' do items := item () :: !items; skip () done;
      incr pos; L (List.rev !items)
    end else begin
      let st = !pos in
      while !pos < n && s.[!pos] <> ' ' && s.[!pos] <> ')' && s.[!pos] <> '(' do incr pos done;
      At (String.sub s st (!pos - st))
    end in
  item ()
let bl = function At "1" -> true | At "0" -> false | _ -> failwith "bool"
let rec ty = function
  | L [At "base"] -> TBase | L [At "const"; t] -> TConst (ty t) | L [At "prefix"; t] -> TPrefix (ty t) | L [At "ref"; t] -> TRef (ty t)
  | L [At "label"; t] -> TLabel (ty t) | L [At "range"; t] -> TRange (ty t) | L [At "array"; t] -> TArray (ty t)
  | L (At "record" :: ts) -> TRecord (List.map ty ts) | L [At "function"] -> TFunction | L [At "process"] -> TProcess
  | _ -> failwith "ty"
let rec lv = function
  | L [At "id"; t] -> LId (ty t) | L [At "dot"; p; b] -> LDot (bl p, lv b) | L [At "idx"; b] -> LIdx (lv b)
  | L [At "ite"; a; b; e] -> LIte (lv a, lv b, bl e) | L [At "comma"; b] -> LComma (lv b) | L [At "write"; b] -> LWrite (lv b)
  | L [At "other"] -> LOther | _ -> failwith "lv"
let () =
  try while true do
    let line = input_line stdin in
    if String.length line > 2 && line.[0] = 'M' then begin
      let l = lv (parse_sx (String.sub line 2 (String.length line - 2))) in
      Printf.printf "M modifiable=%d checked=%d\n" (if modifiable l then 1 else 0) (if writes_checked l then 1 else 0)
    end
  done with End_of_file -> ()
