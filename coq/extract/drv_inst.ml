(* input : one line per scenario, ops separated by blanks:  t<n>  |  i<from>,<n>[,arg...]  |  p<from>
   output: one line: instances then processes, each  unbound/arity/templ/ok[params][k=v,...]  *)
open Model_inst
let rec nat_of_int n = if n <= 0 then O else S (nat_of_int (n - 1))
let rec int_of_nat = function O -> 0 | S n -> 1 + int_of_nat n
let ni = int_of_nat
let op_of (w : Stdlib.String.t) : op =
  let body = Stdlib.String.sub w 1 (Stdlib.String.length w - 1) in
  let nums = List.map (fun x -> nat_of_int (int_of_string x)) (Stdlib.String.split_on_char ',' body) in
  match w.[0], nums with
  | 't', [n] -> AddTemplate n
  | 'i', from :: n :: args -> AddInstance (from, n, args)
  | 'p', [from] -> AddProcess from
  | _ -> failwith ("op " ^ w)
let show i =
  Printf.sprintf "%d/%d/%d/%d[%s][%s]" (ni i.i_unbound) (ni i.i_arity) (ni i.i_templ) (if inst_okb i then 1 else 0)
    (Stdlib.String.concat "," (List.map (fun p -> string_of_int (ni p)) i.i_params))
    (Stdlib.String.concat "," (List.map (fun (k, v) -> string_of_int (ni k) ^ "=" ^ string_of_int (ni v)) i.i_map))
let () =
  try while true do
    let line = input_line stdin in
    let ws = List.filter (fun w -> w <> "") (Stdlib.String.split_on_char ' ' line) in
    let s = run (List.map op_of ws) st0 in
    print_endline ("I " ^ Stdlib.String.concat " " (List.map show s.s_insts) ^ " P " ^ Stdlib.String.concat " " (List.map show s.s_procs))
  done with End_of_file -> ()
