From Coq Require Import Extraction ExtrOcamlBasic List.
From Utap Require Import Constness.
Extraction Language OCaml.
Extraction "model_constness.ml" modifiable writes_checked is_mutable is_constant get_sub get_field.
