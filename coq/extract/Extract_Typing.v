(* Extraction of the class-level typing model and the convexity theory (C10, C14). *)
From Coq Require Import Extraction ExtrOcamlBasic List.
From Utap Require Import Typing Convex TypeSym.
Extraction Language OCaml.
Extraction "model_typing.ml" bin_type not_type forall_type exists_type iif_type all_cls all_ops ty convex clock_free atoms_ok accepted
  is_integral is_guard isInvariantWR same_scalar equiv.
