From Coq Require Import Extraction ExtrOcamlBasic List.
From Utap Require Import DocModel DocProofs.
Extraction Language OCaml.
Extraction "model_doc.ml" read_templ build step templates b0 wf_templ.
