From Coq Require Import Extraction ExtrOcamlBasic List.
From Utap Require Import Scope.
Extraction Language OCaml.
Extraction "model_scope.ml" walk spec size empty_frame.
