From Coq Require Import Extraction ExtrOcamlBasic List.
From Utap Require Import Effects.
Extraction Language OCaml.
Extraction "model_effects.ml" summaries writes reads roots.
