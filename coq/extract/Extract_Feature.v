From Coq Require Import Extraction ExtrOcamlBasic List.
From Utap Require Import Feature.
Extraction Language OCaml.
Extraction "model_feature.ml" check.
