(* Driver for the typing model.  Without arguments: prints the complete class tables
     B <op> <a> <b> -> <r>      N <a> -> r      A <a> -> r (forall)     X <a> -> r (exists)     I <c> <a> <b> -> r
   then reads formulas, one per line:  F <sexp>  ->  "TY <cls> ACC <0|1> CONVEX <0|1> ATOMSOK <0|1> CLOCKFREE <0|1>" *)
open Model_typing
let rec int_of_nat = function O -> 0 | S n -> 1 + int_of_nat n
let cls_s = function
  | CInt -> "CInt" | CBool -> "CBool" | CDouble -> "CDouble" | CClock -> "CClock" | CDiff -> "CDiff" | CRate -> "CRate" | CCost -> "CCost"
  | CInvariant -> "CInvariant" | CInvariantWR -> "CInvariantWR" | CGuard -> "CGuard" | CConstraint -> "CConstraint" | CFormula -> "CFormula"
  | CRecord n -> "CRecord" ^ string_of_int (int_of_nat n) | CArray n -> "CArray" ^ string_of_int (int_of_nat n)
  | CScalar n -> "CScalar" ^ string_of_int (int_of_nat n) | CChannel n -> "CChannel" ^ string_of_int (int_of_nat n) | CString -> "CString" | CVoid -> "CVoid"
let op_s = function
  | OPlus -> "PLUS" | OMinus -> "MINUS" | OMult -> "MULT" | ODiv -> "DIV" | OPow -> "POW" | OMin -> "MIN" | OMax -> "MAX" | OMod -> "MOD"
  | OBitAnd -> "BIT_AND" | OBitOr -> "BIT_OR" | OBitXor -> "BIT_XOR" | OLshift -> "BIT_LSHIFT" | ORshift -> "BIT_RSHIFT"
  | OAnd -> "AND" | OOr -> "OR" | OXor -> "XOR" | OLt -> "LT" | OLe -> "LE" | OGe -> "GE" | OGt -> "GT" | OEq -> "EQ" | ONeq -> "NEQ"
let res = function Some c -> cls_s c | None -> "None"
type sx = At of string | L of sx list
let parse_sx (s : string) : sx =
  let n = String.length s in
  let pos = ref 0 in
  let rec skip () = while !pos < n && s.[!pos] = ' ' do incr pos done
  and item () =
    skip ();
    if s.[!pos] = '(' then begin
      incr pos; let items = ref [] in skip ();
      while s.[!pos] <> ')' do items := item () :: !items; skip () done;
      incr pos; L (List.rev !items)
    end else begin
      let st = !pos in
      while !pos < n && s.[!pos] <> ' ' && s.[!pos] <> ')' && s.[!pos] <> '(' do incr pos done;
      At (String.sub s st (!pos - st))
    end in
  item ()
let operand = function "i" -> EInt | "d" -> EDouble | "x" -> EClock | "xy" -> EDiff | s -> failwith ("operand " ^ s)
let rel = function "lt" -> RLt | "le" -> RLe | "ge" -> RGe | "gt" -> RGt | "eq" -> REq | "neq" -> RNeq | s -> failwith ("rel " ^ s)
let rec form = function
  | L [At "bool"] -> FBool
  | L [At "cmp"; At r; At a; At b] -> FCmp (rel r, operand a, operand b)
  | L [At "and"; a; b] -> FAnd (form a, form b) | L [At "or"; a; b] -> FOr (form a, form b) | L [At "xor"; a; b] -> FXor (form a, form b)
  | L [At "eq"; a; b] -> FEq (form a, form b) | L [At "neq"; a; b] -> FNeq (form a, form b) | L [At "not"; a] -> FNot (form a)
  | L [At "imply"; a; b] -> FImply (form a, form b) | L [At "forall"; a] -> FForall (form a) | L [At "exists"; a] -> FExists (form a)
  | _ -> failwith "form"
let b x = if x then 1 else 0
let () =
  if Array.length Sys.argv > 1 && Sys.argv.(1) = "tables" then begin
    List.iter (fun o -> List.iter (fun a -> List.iter (fun c -> Printf.printf "B %s %s %s -> %s\n" (op_s o) (cls_s a) (cls_s c) (res (bin_type o a c))) all_cls) all_cls) all_ops;
    List.iter (fun a -> Printf.printf "N %s -> %s\nA %s -> %s\nX %s -> %s\n" (cls_s a) (res (not_type a)) (cls_s a) (res (forall_type a)) (cls_s a) (res (exists_type a))) all_cls;
    List.iter (fun c -> List.iter (fun a -> List.iter (fun d -> Printf.printf "I %s %s %s -> %s\n" (cls_s c) (cls_s a) (cls_s d) (res (iif_type c a d))) all_cls) all_cls) all_cls
  end else
    try while true do
      let line = input_line stdin in
      if String.length line > 2 && line.[0] = 'F' then begin
        let f = form (parse_sx (String.sub line 2 (String.length line - 2))) in
        let t = ty f in
        Printf.printf "TY %s ACC %d GUARD %d INV %d CONVEX %d ATOMSOK %d CLOCKFREE %d\n" (res t)
          (match t with Some c -> b (accepted c) | None -> 0) (match t with Some c -> b (is_guard c) | None -> 0)
          (match t with Some c -> b (isInvariantWR c) | None -> 0) (b (convex f)) (b (atoms_ok f)) (b (clock_free f))
      end
    done with End_of_file -> ()
