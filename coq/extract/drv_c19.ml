(* Driver for the extracted expression-law models.  Trees come in utapdump's dump syntax.
     E <t1> | <t2>       -> "EQ <0|1> <0|1>"   (equal t1 t2, equal t2 t1; the two trees get disjoint identities)
     S <name> <t>        -> "SUBST <tree>"     (subst name := (CONSTANT i:777)), identities erased
     C <t>               -> "CLONE same=<0|1> equal=<0|1> disjoint=<0|1> fresh=<0|1>" *)
open Model_c19
let rec pos_of_int n = if n <= 1 then XH else if n land 1 = 0 then XO (pos_of_int (n lsr 1)) else XI (pos_of_int (n lsr 1))
let rec int_of_pos = function XH -> 1 | XO p -> 2 * int_of_pos p | XI p -> 2 * int_of_pos p + 1
let rec nat_of_int n = if n <= 0 then O else S (nat_of_int (n - 1))
let z_of_int n = if n = 0 then Z0 else if n > 0 then Zpos (pos_of_int n) else Zneg (pos_of_int (-n))
let n_of_int64 (x : int64) : n =
  (* unsigned 64-bit pattern -> N *)
  let rec go (x : int64) = if Int64.equal x 0L then None else
      let bit = Int64.logand x 1L = 1L in
      let rest = go (Int64.shift_right_logical x 1) in
      Some (match rest with None -> XH | Some p -> if bit then XI p else XO p) |> fun r ->
      (match rest, bit with None, true -> Some XH | None, false -> None | Some p, true -> Some (XI p) | Some p, false -> Some (XO p)) |> fun r2 -> ignore r; r2 in
  match go x with None -> N0 | Some p -> Npos p
let coq_of_string (s : Stdlib.String.t) =
  let r = ref EmptyString in
  for i = Stdlib.String.length s - 1 downto 0 do
    let c = Char.code s.[i] in
    let b k = (c lsr k) land 1 = 1 in
    r := String (Ascii (b 0, b 1, b 2, b 3, b 4, b 5, b 6, b 7), !r)
  done; !r
let string_of_coq s =
  let b = Buffer.create 16 in
  let rec go = function
    | EmptyString -> ()
    | String (Ascii (b0, b1, b2, b3, b4, b5, b6, b7), r) ->
      let v x k = if x then 1 lsl k else 0 in
      Buffer.add_char b (Char.chr (v b0 0 + v b1 1 + v b2 2 + v b3 3 + v b4 4 + v b5 5 + v b6 6 + v b7 7)); go r in
  go s; Buffer.contents b
type sx = At of Stdlib.String.t | L of sx list
let parse_sx (s : Stdlib.String.t) : sx =
  let n = Stdlib.String.length s in
  let pos = ref 0 in
  let rec skip () = while !pos < n && s.[!pos] = ' ' do incr pos done
  and item () =
    skip ();
    if s.[!pos] = '(' then begin
      incr pos; let items = ref [] in skip ();
      while s.[!pos] <> ')' do items := item () :: !items; skip () done;
      incr pos; L (List.rev !items)
    end else if s.[!pos] = '"' then begin
      let st = !pos in incr pos;
      while s.[!pos] <> '"' do (if s.[!pos] = '\\' then incr pos); incr pos done; incr pos;
      At (Stdlib.String.sub s st (!pos - st))
    end else begin
      let st = !pos in
      while !pos < n && s.[!pos] <> ' ' && s.[!pos] <> ')' && s.[!pos] <> '(' do incr pos done;
      At (Stdlib.String.sub s st (!pos - st))
    end in
  item ()
let syms : (Stdlib.String.t, int) Hashtbl.t = Hashtbl.create 64
let strs : (Stdlib.String.t, int) Hashtbl.t = Hashtbl.create 64
let intern tbl s = try Hashtbl.find tbl s with Not_found -> let i = Hashtbl.length tbl + 1 in Hashtbl.add tbl s i; i
let counter = ref 0
let fresh () = incr counter; pos_of_int !counter
let starts s p = Stdlib.String.length s >= Stdlib.String.length p && Stdlib.String.sub s 0 (Stdlib.String.length p) = p
let after s k = Stdlib.String.sub s k (Stdlib.String.length s - k)
(* (KIND [leaf] subs...) *)
let rec build (x : sx) : ex =
  match x with
  | L (At k :: rest) ->
    let id = fresh () in
    let v, sym, subs =
      (match k, rest with
       | "IDENTIFIER", [At name] -> VInt Z0, Some (pos_of_int (intern syms name)), []
       | "CONSTANT", [At lit] | "VAR_INDEX", [At lit] ->
         (if starts lit "i:" || starts lit "b:" || starts lit "v:" then VInt (z_of_int (int_of_string (after lit 2)))
          else if starts lit "d:" then VDouble (n_of_int64 (Int64.of_string ("0x" ^ after lit 2)))
          else VStr (nat_of_int (intern strs lit))), None, []
       | "CONSTANT", At lit :: more -> VStr (nat_of_int (intern strs (Stdlib.String.concat " " (lit :: List.map (function At a -> a | _ -> "") more)))), None, []
       | "DOT", At idx :: subs -> VInt (z_of_int (int_of_string (after idx 1))), None, subs
       | "SYNC", At w :: subs -> VSync (nat_of_int (match w with "?" -> 0 | "!" -> 1 | _ -> 2)), None, subs
       | _, subs -> VInt (z_of_int (List.length subs)), None, subs) in
    Node (id, coq_of_string k, v, sym, List.map build subs)
  | _ -> failwith "bad tree"
let rec show (t : tree) : Stdlib.String.t =
  match t with
  | T (k, v, sym, subs) ->
    let k = string_of_coq k in
    let leaf = (match k, v, sym with
        | "IDENTIFIER", _, Some p -> let i = int_of_pos p in " " ^ (Hashtbl.fold (fun n j acc -> if j = i then n else acc) syms "?")
        | ("CONSTANT" | "VAR_INDEX"), VInt z, _ -> " i:" ^ string_of_int (match z with Z0 -> 0 | Zpos p -> int_of_pos p | Zneg p -> - (int_of_pos p))
        | ("CONSTANT" | "VAR_INDEX"), VDouble _, _ -> " d"
        | "DOT", VInt z, _ -> " ." ^ string_of_int (match z with Z0 -> 0 | Zpos p -> int_of_pos p | Zneg p -> - (int_of_pos p))
        | _ -> "") in
    "(" ^ k ^ leaf ^ Stdlib.String.concat "" (List.map (fun x -> " " ^ show x) subs) ^ ")"
let maxint l = List.fold_left (fun m p -> max m (int_of_pos p)) 0 l
let () =
  try while true do
    let line = input_line stdin in
    if Stdlib.String.length line > 2 then begin
      let body = after line 2 in
      (match line.[0] with
       | 'E' ->
         let i = Stdlib.String.index body '|' in
         let a = build (parse_sx (Stdlib.String.sub body 0 i)) in
         let b = build (parse_sx (after body (i + 1))) in
         Printf.printf "EQ %d %d\n" (if equal_gen a b then 1 else 0) (if equal_gen b a then 1 else 0)
       | 'S' ->
         let i = Stdlib.String.index body ' ' in
         let name = Stdlib.String.sub body 0 i in
         let e = build (parse_sx (after body (i + 1))) in
         let r = Node (fresh (), coq_of_string "CONSTANT", VInt (z_of_int 777), None, []) in
         let (e', _) = subst_gen (pos_of_int (intern syms name)) r e (pos_of_int (!counter + 1000)) in
         Printf.printf "SUBST %s\n" (show (erase e'))
       | 'C' ->
         let e = build (parse_sx body) in
         let n0 = !counter + 1 in
         let (c, nx) = clone e (pos_of_int n0) in
         counter := int_of_pos nx + 1;
         let ie = List.map int_of_pos (ids e) and ic = List.map int_of_pos (ids c) in
         Printf.printf "CLONE same=%d equal=%d disjoint=%d fresh=%d\n" (if erase c = erase e then 1 else 0) (if equal_gen e c && equal_gen c e then 1 else 0)
           (if List.for_all (fun i -> not (List.mem i ie)) ic then 1 else 0) (if List.for_all (fun i -> i >= n0) ic then 1 else 0)
       | _ -> ())
    end
  done with End_of_file -> ()
