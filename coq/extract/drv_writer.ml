(* input : "T <templ>" lines as printed by utapdump's DUMP wdoc (strings are ~percent-encoded).
   output: "W 0|1" (wf_templ), "X <tree>" (write_templ), "G <graph>|NONE" (read_templ (write_templ t)),
           "S <graph>" (graph_of t) — four lines per input line. *)
open Model_writer
type sx = At of Stdlib.String.t | L of sx list
let parse_sx (s : Stdlib.String.t) : sx =
  let n = Stdlib.String.length s in
  let pos = ref 0 in
  let rec skip () = while !pos < n && s.[!pos] = ' ' do incr pos done
  and item () =
    skip ();
    if s.[!pos] = '(' then begin
      incr pos; let items = ref [] in skip ();
      while s.[!pos] <> ')' do items := item () :: !items; skip () done;
      incr pos; L (List.rev !items)
    end else begin
      let st = !pos in
      while !pos < n && s.[!pos] <> ' ' && s.[!pos] <> ')' && s.[!pos] <> '(' do incr pos done;
      At (Stdlib.String.sub s st (!pos - st))
    end in
  item ()
let rec nat_of_int n = if n <= 0 then O else S (nat_of_int (n - 1))
let rec int_of_nat = function O -> 0 | S n -> 1 + int_of_nat n
let ascii_of_char c = let n = Char.code c in let b i = (n lsr i) land 1 = 1 in Ascii (b 0, b 1, b 2, b 3, b 4, b 5, b 6, b 7)
let char_of_ascii (Ascii (a, b, c, d, e, f, g, h)) =
  let v x i = if x then 1 lsl i else 0 in Char.chr (v a 0 + v b 1 + v c 2 + v d 3 + v e 4 + v f 5 + v g 6 + v h 7)
let coq_of_string (s : Stdlib.String.t) : string =
  let r = ref EmptyString in
  for i = Stdlib.String.length s - 1 downto 0 do r := String (ascii_of_char s.[i], !r) done; !r
let rec string_of_coq (s : string) : Stdlib.String.t =
  let b = Buffer.create 16 in
  let rec go = function EmptyString -> () | String (c, r) -> Buffer.add_char b (char_of_ascii c); go r in
  go s; Buffer.contents b
let dec (s : Stdlib.String.t) : Stdlib.String.t =          (* "~..." percent-encoded *)
  let b = Buffer.create 16 in
  let n = Stdlib.String.length s in
  let i = ref 1 in
  while !i < n do
    if s.[!i] = '%' then begin Buffer.add_char b (Char.chr (int_of_string ("0x" ^ Stdlib.String.sub s (!i + 1) 2))); i := !i + 3 end
    else begin Buffer.add_char b s.[!i]; incr i end
  done; Buffer.contents b
let enc (s : Stdlib.String.t) : Stdlib.String.t =
  let b = Buffer.create 16 in
  Buffer.add_char b '~';
  Stdlib.String.iter (fun c -> match c with
    | 'a'..'z' | 'A'..'Z' | '0'..'9' | '_' | '.' -> Buffer.add_char b c
    | _ -> Buffer.add_string b (Printf.sprintf "%%%02X" (Char.code c))) s;
  Buffer.contents b
let str = function At s -> coq_of_string (dec s) | _ -> failwith "str"
let ostr = function At "-" -> None | x -> Some (str x)
let num = function At s -> nat_of_int (int_of_string s) | _ -> failwith "num"
let onum = function At "-" -> None | x -> Some (num x)
let bl = function At "1" -> true | At "0" -> false | _ -> failwith "bool"
let lst = function L (At _ :: r) -> r | _ -> failwith "list"
let ep = function L [At "L"; n] -> ELoc (num n) | L [At "B"; n] -> EBp (num n) | _ -> failwith "ep"
let loc = function L [At "l"; nr; n; i; r; c; u] -> { wl_nr = num nr; wl_name = str n; wl_inv = ostr i; wl_rate = ostr r; wl_committed = bl c; wl_urgent = bl u } | _ -> failwith "loc"
let edge = function
  | L [At "e"; s; d; c; sel; g; y; a; p] ->
    { we_src = ep s; we_dst = ep d; we_control = bl c; we_select = List.map (function L [n; t] -> (str n, str t) | _ -> failwith "sel") (lst sel);
      we_guard = ostr g; we_sync = ostr y; we_assign = ostr a; we_prob = ostr p }
  | _ -> failwith "edge"
let templ = function
  | L [At "t"; n; p; d; ls; bs; L [At "init"; i]; es] ->
    { wt_name = str n; wt_params = str p; wt_decls = str d; wt_locs = List.map loc (lst ls); wt_bps = List.map num (lst bs); wt_init = onum i; wt_edges = List.map edge (lst es) }
  | _ -> failwith "templ"
let e s = enc (string_of_coq s)
let rec show_xml = function
  | Text s -> "(T " ^ e s ^ ")"
  | Elem (n, a, k) -> "(E " ^ string_of_coq n ^ " (" ^ Stdlib.String.concat " " (List.map (fun (k, v) -> "(" ^ string_of_coq k ^ " " ^ e v ^ ")") a) ^ ")"
                      ^ Stdlib.String.concat "" (List.map (fun x -> " " ^ show_xml x) k) ^ ")"
let o = function Some s -> e s | None -> "-"
let on = function Some n -> string_of_int (int_of_nat n) | None -> "-"
let ge = function GLoc i -> "L" ^ string_of_int (int_of_nat i) | GBp i -> "B" ^ string_of_int (int_of_nat i)
let b x = if x then "1" else "0"
let show_graph g =
  "(g " ^ e g.g_name ^ " (locs" ^ Stdlib.String.concat "" (List.map (fun l -> Printf.sprintf " (%s %s %s %s %s)" (e l.gl_name) (o l.gl_inv) (o l.gl_rate) (b l.gl_committed) (b l.gl_urgent)) g.g_locs)
  ^ ") (nbps " ^ string_of_int (int_of_nat g.g_nbps) ^ ") (init " ^ on g.g_init ^ ") (edges"
  ^ Stdlib.String.concat "" (List.map (fun x -> Printf.sprintf " (%s %s %s %s %s %s %s %s)" (ge x.ge_src) (ge x.ge_dst) (b x.ge_control) (o x.ge_select) (o x.ge_guard) (o x.ge_sync) (o x.ge_assign) (o x.ge_prob)) g.g_edges)
  ^ "))"
let () =
  try while true do
    let line = input_line stdin in
    if Stdlib.String.length line > 2 && line.[0] = 'T' then begin
      let t = templ (parse_sx (Stdlib.String.sub line 2 (Stdlib.String.length line - 2))) in
      let x = write_templ t in
      print_endline ("W " ^ b (wf_templ t));
      print_endline ("X " ^ show_xml x);
      print_endline ("G " ^ (match read_templ x with Some g -> show_graph g | None -> "NONE"));
      print_endline ("S " ^ show_graph (graph_of t))
    end
  done with End_of_file -> ()
