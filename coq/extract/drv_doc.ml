(* input: one line per model:  M <templ> <templ> ...
   templ ::= (t name (locs (l id name|- inv|- rate|- urgent committed)..) (bps id..) (init id|-) (edges (e src dst ctl (k lab)..)..))
   kinds: s g y u p o.   Also  "C <cb> <cb> ..." : run an explicit callback sequence through the builder.
   output: one line with the built templates, or "THROW" when the reader ends with a missing reference *)
open Model_doc
type sx = At of string | L of sx list
let parse_sx (s : string) : sx =
  let n = String.length s in
  let pos = ref 0 in
  let rec skip () = while !pos < n && s.[!pos] = ' ' do incr pos done
  and item () =
    skip ();
    if s.[!pos] = '(' then begin
      incr pos; let items = ref [] in skip ();
      while s.[!pos] <> ')' do items := item () :: !items; skip () done;
      incr pos; L (List.rev !items)
    end else begin
      let st = !pos in
      while !pos < n && s.[!pos] <> ' ' && s.[!pos] <> ')' && s.[!pos] <> '(' do incr pos done;
      At (String.sub s st (!pos - st))
    end in
  item ()
let rec nat_of_int n = if n <= 0 then O else S (nat_of_int (n - 1))
let rec int_of_nat = function O -> 0 | S n -> 1 + int_of_nat n
let num = function At s -> nat_of_int (int_of_string s) | _ -> failwith "num"
let opt = function At "-" -> None | x -> Some (num x)
let bl = function At "1" -> true | At "0" -> false | _ -> failwith "bool"
let kind = function At "s" -> KSelect | At "g" -> KGuard | At "y" -> KSync | At "u" -> KUpdate | At "p" -> KProb | _ -> KOther
let lst = function L (At _ :: r) -> r | _ -> failwith "list"
let loc = function L [At "l"; i; n; inv; rate; u; c] -> { xl_id = num i; xl_name = opt n; xl_inv = opt inv; xl_rate = opt rate; xl_urgent = bl u; xl_committed = bl c } | _ -> failwith "loc"
let edge = function L (At "e" :: s :: d :: c :: labs) -> { xe_src = num s; xe_dst = num d; xe_control = bl c; xe_labels = List.map (function L [k; l] -> (kind k, num l) | _ -> failwith "lab") labs } | _ -> failwith "edge"
let templ = function
  | L [At "t"; n; ls; bs; L [At "init"; i]; es] -> { xt_name = num n; xt_locs = List.map loc (lst ls); xt_bps = List.map num (lst bs); xt_init = opt i; xt_edges = List.map edge (lst es) }
  | _ -> failwith "templ"
let nm = function Named n -> "N" ^ string_of_int (int_of_nat n) | Anon i -> "A" ^ string_of_int (int_of_nat i)
let o = function Some n -> string_of_int (int_of_nat n) | None -> "-"
let show (t : dtempl) =
  Printf.sprintf "(t %d (locs%s) (bps%s) (init %s) (edges%s))" (int_of_nat t.dt_name)
    (String.concat "" (List.map (fun l -> Printf.sprintf " (%s %s %s %d %d)" (nm l.dl_name) (o l.dl_inv) (o l.dl_rate) (if l.dl_urgent then 1 else 0) (if l.dl_committed then 1 else 0)) t.dt_locs))
    (String.concat "" (List.map (fun b -> " " ^ nm b) t.dt_bps)) (match t.dt_init with Some n -> nm n | None -> "-")
    (String.concat "" (List.map (fun e -> Printf.sprintf " (%s %s %d [%s] %s %s %s %s)" (nm e.de_src) (nm e.de_dst) (if e.de_control then 1 else 0)
                                   (String.concat "," (List.map (fun s -> string_of_int (int_of_nat s)) e.de_selects)) (o e.de_guard) (o e.de_sync) (o e.de_update) (o e.de_prob)) t.dt_edges))
let name2 k n = if k = "N" then Named (num n) else Anon (num n)
let cbk = function
  | L [At "begin"; n] -> ProcBegin (num n) | L [At "end"] -> ProcEnd
  | L [At "loc"; At k; n; i; r] -> ProcLocation (name2 k n, opt i, opt r)
  | L [At "ebegin"; At k1; s; At k2; d; c] -> EdgeBegin (name2 k1 s, name2 k2 d, bl c)
  | L [At "eend"] -> EdgeEnd | L [At "guard"; l] -> Guard (num l) | L [At "sync"; l] -> Sync (num l) | L [At "update"; l] -> Update (num l)
  | L [At "prob"; l] -> Prob (num l) | L [At "select"; l] -> Select (num l) | L [At "init"; At k; n] -> ProcInit (name2 k n)
  | _ -> failwith "cb"
let () =
  try while true do
    let line = input_line stdin in
    if String.length line >= 1 then begin
      let body = if String.length line > 2 then String.sub line 2 (String.length line - 2) else "" in
      match parse_sx ("(x " ^ body ^ ")") with
      | L (_ :: items) when line.[0] = 'M' ->
        let ts = List.map templ items in
        let rec go m b wf = function
          | [] -> Some (b, wf)
          | t :: r -> (match read_templ m t with
              | (Some cs, m2) -> go m2 (build cs b) (wf && wf_templ m2 t) r
              | (None, _) -> None) in
        (match go [] b0 true ts with
         | Some (b, wf) -> print_endline ("DOC wf=" ^ (if wf then "1" else "0") ^ " " ^ String.concat " " (List.map show (templates b)))
         | None -> print_endline "THROW")
      | L (_ :: items) when line.[0] = 'C' ->
        let b = build (List.map cbk items) b0 in
        print_endline ("DOC " ^ String.concat " " (List.map show (templates b)))
      | _ -> ()
    end
  done with End_of_file -> ()
