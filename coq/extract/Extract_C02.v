(* Extraction of the executable SR machine, renderers and normalisation (C02/C03). *)
From Coq Require Import Extraction ExtrOcamlBasic.
From Utap Require Import SR OpTableRef ExprSyntax PrintImpl.
From Utap.gen Require Import Gen_OpTable.
Extraction Language OCaml.
Extraction "model_c02.ml" parseG flatG flatR norm pprint covered bop_of_idx bop_idx uop_of_idx uop_idx pop_of_idx pop_idx.
