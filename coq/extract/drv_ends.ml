(* input: one text per line, hex encoded; output: the positions directly behind the tokens of the text (LexStable.ends), separated by blanks *)
open Model_ends
let rec nat_of_int n = if n <= 0 then O else S (nat_of_int (n - 1))
let rec int_of_nat = function O -> 0 | S n -> 1 + int_of_nat n
let bit n k = (n lsr k) land 1 = 1
let ascii_of_int n = Ascii (bit n 0, bit n 1, bit n 2, bit n 3, bit n 4, bit n 5, bit n 6, bit n 7)
let unhex s = List.init (Stdlib.String.length s / 2) (fun i -> ascii_of_int (int_of_string ("0x" ^ Stdlib.String.sub s (2 * i) 2)))
let () =
  try while true do
    let line = Stdlib.String.trim (input_line stdin) in
    let t = unhex line in
    print_endline (Stdlib.String.concat " " (List.map (fun p -> string_of_int (int_of_nat p)) (ends_gen (nat_of_int (List.length t + 2)) t)))
  done with End_of_file -> ()
