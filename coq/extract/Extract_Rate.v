From Coq Require Import Extraction ExtrOcamlBasic List.
From Utap Require Import Typing RateModel.
Extraction Language OCaml.
Extraction "model_rate.ml" decompose d0 accepted plain ltype.
