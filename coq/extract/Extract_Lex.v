From Coq Require Import Extraction ExtrOcamlBasic List Ascii String.
From Utap Require Import CommentLex LexModel.
From Utap.gen Require Import Gen_LexRules.
Definition lex_gen (fuel : nat) (s : text) := lex gen_literals fuel s.
Extraction Language OCaml.
Extraction "model_lex.ml" lex_gen.
