(* Extraction of the executable expression-law models (C19) with get_size instantiated by the regenerated table. *)
From Coq Require Import Extraction ExtrOcamlBasic List String.
From Utap Require Import ExprLaws ExprSizes.
From Utap.gen Require Import Gen_Sizes.
Extraction Language OCaml.
(* get_size(): fixed arity from the table; n-ary kinds report the count stored in the node (= the number attached) *)
Definition gsize_gen (k : string) (v : value) (n : nat) : nat :=
  match size_lookup k size_table with Some (Some m) => m | Some None => n | None => 0 end.
Definition equal_gen := equal gsize_gen.
Definition subst_gen := subst gsize_gen.
Extraction "model_c19.ml" equal_gen subst_gen clone erase ids gsize_gen.
