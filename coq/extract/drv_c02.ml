(* Driver for the extracted SR model.  stdin lines:
     R <tree>     -> "MIN <toks>" "FULL <toks>" "NORM <ktree>" "SELF <0|1>"
     P <toks>     -> "TREE <ktree>" | "REJECT"
   tree   ::= (A n) | (B i l r) | (U i b x) | (P i f x) | (I c a b) | (X a i) | (C f args..) | (F kind a rest..)
   tokens ::= a<n> o<i> u<i>.<b> p<i>.<f> ? : ( ) [ ] , f<kind>    (blank separated) *)
open Model_c02
let rec nat_of_int n = if n <= 0 then O else S (nat_of_int (n - 1))
let rec int_of_nat = function O -> 0 | S n -> 1 + int_of_nat n
let coq_of_string (s : Stdlib.String.t) =
  let r = ref EmptyString in
  for i = String.length s - 1 downto 0 do
    let c = Char.code s.[i] in
    let b k = (c lsr k) land 1 = 1 in
    r := String (Ascii (b 0, b 1, b 2, b 3, b 4, b 5, b 6, b 7), !r)
  done; !r
let string_of_coq s =
  let b = Buffer.create 16 in
  let rec go = function
    | EmptyString -> ()
    | String (Ascii (b0, b1, b2, b3, b4, b5, b6, b7), r) ->
      let v x k = if x then 1 lsl k else 0 in
      Buffer.add_char b (Char.chr (v b0 0 + v b1 1 + v b2 2 + v b3 3 + v b4 4 + v b5 5 + v b6 6 + v b7 7)); go r in
  go s; Buffer.contents b
(* s-expression reader *)
type sx = At of Stdlib.String.t | L of sx list
let parse_sx (s : Stdlib.String.t) : sx =
  let n = String.length s in
  let pos = ref 0 in
  let rec skip () = while !pos < n && s.[!pos] = ' ' do incr pos done
  and item () =
    skip ();
    if s.[!pos] = '(' then begin
      incr pos;
      let items = ref [] in
      skip ();
      while s.[!pos] <> ')' do items := item () :: !items; skip () done;
      incr pos; L (List.rev !items)
    end else begin
      let st = !pos in
      while !pos < n && s.[!pos] <> ' ' && s.[!pos] <> ')' && s.[!pos] <> '(' do incr pos done;
      At (String.sub s st (!pos - st))
    end in
  item ()
let get = function Some x -> x | None -> failwith "bad index"
let rec tree = function
  | L [At "A"; At n] -> Atom (nat_of_int (int_of_string n))
  | L [At "B"; At i; l; r] -> Bin (get (bop_of_idx (nat_of_int (int_of_string i)) O), tree l, tree r)
  | L [At "U"; At i; At b; x] -> Un (get (uop_of_idx (nat_of_int (int_of_string i)) (nat_of_int (int_of_string b))), tree x)
  | L [At "P"; At i; At f; x] -> Post (get (pop_of_idx (nat_of_int (int_of_string i)) (nat_of_int (int_of_string f))), tree x)
  | L [At "I"; c; a; b] -> Ite (tree c, tree a, tree b)
  | L [At "X"; a; i] -> Idx (tree a, tree i)
  | L (At "C" :: f :: args) -> Call (tree f, List.map tree args)
  | L (At "F" :: At k :: a :: rest) -> Fn (coq_of_string k, tree a, List.map tree rest)
  | _ -> failwith "bad tree"
let tok_s = function
  | TAtom n -> "a" ^ string_of_int (int_of_nat n)
  | TOp o -> "o" ^ string_of_int (int_of_nat (fst (bop_idx o)))
  | TPre u -> let (i, b) = uop_idx u in "u" ^ string_of_int (int_of_nat i) ^ "." ^ string_of_int (int_of_nat b)
  | TPost p -> let (i, f) = pop_idx p in "p" ^ string_of_int (int_of_nat i) ^ "." ^ string_of_int (int_of_nat f)
  | TQ -> "?" | TC -> ":" | LP -> "(" | RP -> ")" | LB -> "[" | RB -> "]" | TComma -> "," | TFn k -> "f" ^ string_of_coq k
let tok_of s =
  let num k = int_of_string (String.sub s k (String.length s - k)) in
  let two () = match String.split_on_char '.' (String.sub s 1 (String.length s - 1)) with
    | [a; b] -> (nat_of_int (int_of_string a), nat_of_int (int_of_string b)) | _ -> failwith "tok" in
  match s.[0] with
  | 'a' -> TAtom (nat_of_int (num 1))
  | 'o' -> TOp (get (bop_of_idx (nat_of_int (num 1)) O))
  | 'u' -> let (i, b) = two () in TPre (get (uop_of_idx i b))
  | 'p' -> let (i, f) = two () in TPost (get (pop_of_idx i f))
  | '?' -> TQ | ':' -> TC | '(' -> LP | ')' -> RP | '[' -> LB | ']' -> RB | ',' -> TComma
  | 'f' -> TFn (coq_of_string (String.sub s 1 (String.length s - 1)))
  | _ -> failwith ("tok " ^ s)
let rec kt (K (k, leaf, subs)) =
  "(" ^ string_of_coq k ^ (match leaf with Some n -> " #" ^ string_of_int (int_of_nat n) | None -> "") ^
  String.concat "" (List.map (fun x -> " " ^ kt x) subs) ^ ")"
let () =
  try while true do
    let line = input_line stdin in
    if String.length line > 2 then begin
      let body = String.sub line 2 (String.length line - 2) in
      (match line.[0] with
       | 'R' ->
         let t = tree (parse_sx body) in
         let mn = flatG false t and fl = flatG true t in
         Printf.printf "MIN %s\nFULL %s\nNORM %s\nSELF %d\nREFMIN %s\n" (String.concat " " (List.map tok_s mn)) (String.concat " " (List.map tok_s fl))
           (kt (norm t)) (if parseG mn = Some t && parseG fl = Some t then 1 else 0) (String.concat " " (List.map tok_s (flatR false t)))
       | 'Q' ->
         let t = tree (parse_sx body) in
         let pt = pprint t in
         Printf.printf "PRINT %s\nCOVERED %d\nPSELF %d\nNORM %s\n" (String.concat " " (List.map tok_s pt))
           (if covered t then 1 else 0) (if parseG pt = Some t then 1 else 0) (kt (norm t))
       | 'P' ->
         let ts = List.map tok_of (List.filter (fun x -> x <> "") (String.split_on_char ' ' body)) in
         (match parseG ts with Some t -> Printf.printf "TREE %s\n" (kt (norm t)) | None -> print_string "REJECT\n")
       | _ -> ())
    end
  done with End_of_file -> ()
