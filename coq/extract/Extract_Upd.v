From Coq Require Import Extraction ExtrOcamlBasic List.
From Utap Require Import UpdModel.
Extraction Language OCaml.
Extraction "model_upd.ml" visit visit_top uses_fp.
