(* input: one line per query:  "<k1> <k2> | <len>:<nl> <len>:<nl> ..."   (offsets of a range, lexemes of the block)
   output: "L <line1> <col1> <line2> <col2>"  computed twice: by `resolve` and by running the tracker + binary search *)
open Model_position
let rec nat_of_int n = if n <= 0 then O else S (nat_of_int (n - 1))
let rec int_of_nat = function O -> 0 | S n -> 1 + int_of_nat n
let () =
  try while true do
    let line = input_line stdin in
    match String.split_on_char '|' line with
    | [q; ls] ->
      let ks = List.map int_of_string (List.filter (fun x -> x <> "") (String.split_on_char ' ' q)) in
      let lex = List.map (fun s -> match String.split_on_char ':' s with [a; b] -> { l_len = nat_of_int (int_of_string a); l_nl = nat_of_int (int_of_string b) } | _ -> failwith "lexeme")
          (List.filter (fun x -> x <> "") (String.split_on_char ' ' ls)) in
      let t0 = { t_line = O; t_off = O; t_pos = nat_of_int 41; t_path = O } in
      let (t1, e0) = set_path t0 (nat_of_int 7) in
      let tbl = e0 :: snd (lex_all t1 lex) in
      let base = 42 in
      let out = List.map (fun k ->
          let (l, s) = resolve lex O (nat_of_int k) (S O) O in
          let e = find tbl (nat_of_int (base + k)) in
          let l2 = int_of_nat e.e_line and c2 = base + k - int_of_nat e.e_pos in
          Printf.sprintf "%d %d %s" (int_of_nat l) (k - int_of_nat s) (if l2 = int_of_nat l && c2 = k - int_of_nat s then "same" else Printf.sprintf "DIFF(%d,%d)" l2 c2)) ks in
      print_endline ("L " ^ String.concat " " out)
    | _ -> ()
  done with End_of_file -> ()
