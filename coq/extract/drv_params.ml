(* input, one parameter list per line: groups separated by ';', a group is  r n n ..  (reference group) or  c n n ..  (const group)
   output: the parameters the modelled callbacks build, "n:ref:const ..." then " | " then the specification's, then the final type-stack depth and underflow flag *)
open Model_params
let rec nat_of_int n = if n <= 0 then O else S (nat_of_int (n - 1))
let rec int_of_nat = function O -> 0 | S n -> 1 + int_of_nat n
let b = function true -> "1" | false -> "0"
let show l = Stdlib.String.concat " " (List.map (fun p -> Printf.sprintf "%d:%s:%s" (int_of_nat p.p_name) (b p.p_ref) (b p.p_const)) l)
let () =
  try while true do
    let line = input_line stdin in
    let groups = List.filter (fun g -> g <> []) (List.map (fun g -> List.filter (fun w -> w <> "") (Stdlib.String.split_on_char ' ' g)) (Stdlib.String.split_on_char ';' line)) in
    (try
      let gs = List.map (function k :: ns -> { g_kind = (if k = "r" then ByRef else ConstVal); g_names = (List.map (fun n -> nat_of_int (int_of_string n)) ns) } | [] -> failwith "group") groups in
      let s = prun (cbs gs) { ps_types = []; ps_params = []; ps_underflow = false } in
      print_endline (show s.ps_params ^ " | " ^ show (spec gs) ^ " | depth " ^ string_of_int (List.length s.ps_types) ^ " underflow " ^ b s.ps_underflow)
    with Failure m -> print_endline ("ERR " ^ m))
  done with End_of_file -> ()
