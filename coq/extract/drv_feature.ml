(* Driver for the FeatureChecker model: one abstract document per line (s-expression), prints "V sym sto con". *)
open Model_feature
type sx = At of string | L of sx list
let parse_sx (s : string) : sx =
  let n = String.length s in
  let pos = ref 0 in
  let rec skip () = while !pos < n && s.[!pos] = ' ' do incr pos done
  and item () =
    skip ();
    if s.[!pos] = '(' then begin
      incr pos; let items = ref [] in skip ();
      while s.[!pos] <> ')' do items := item () :: !items; skip () done;
      incr pos; L (List.rev !items)
    end else begin
      let st = !pos in
      while !pos < n && s.[!pos] <> ' ' && s.[!pos] <> ')' && s.[!pos] <> '(' do incr pos done;
      At (String.sub s st (!pos - st))
    end in
  item ()
let rec pos_of_int n = if n <= 1 then XH else if n land 1 = 0 then XO (pos_of_int (n lsr 1)) else XI (pos_of_int (n lsr 1))
let z_of_int n = if n = 0 then Z0 else if n > 0 then Zpos (pos_of_int n) else Zneg (pos_of_int (-n))
let bl = function At "1" -> true | At "0" -> false | _ -> failwith "bool"
let rec gexp = function
  | L [At "leaf"; f] -> GLeaf (bl f)
  | L [At "cmp"; a; b; c; d] -> GCmp ({ s_fp = bl a; s_clock = bl b }, { s_fp = bl c; s_clock = bl d })
  | L [At "rate"; h; L [At "int"; At z]] -> GRate (bl h, RInt (z_of_int (int_of_string z)))
  | L [At "rate"; h; L [At "dbl"; x]] -> GRate (bl h, RDouble01 (bl x))
  | L [At "rate"; h; L [At "expr"]] -> GRate (bl h, RExpr)
  | L [At "and"; a; b] -> GAnd (gexp a, gexp b) | L [At "or"; a; b] -> GOr (gexp a, gexp b) | L [At "not"; a] -> GNot (gexp a)
  | L [At "forall"; a] -> GForall (gexp a) | L [At "exists"; a] -> GExists (gexp a)
  | _ -> failwith "gexp"
let upd = function L [At "assign"; f; h] -> UAssign (bl f, bl h) | L [At "other"; f] -> UOther (bl f) | _ -> failwith "upd"
let var = function L [At "var"; c; f] -> { v_clock = bl c; v_init_fp = bl f } | _ -> failwith "var"
let chan = function L [At "chan"; b] -> bl b | _ -> failwith "chan"
let lst = function L (At _ :: r) -> r | _ -> failwith "list"
let edge = function
  | L [At "edge"; L [At "guard"; g]; us] -> { e_guard = Some (gexp g); e_assign = List.map upd (lst us) }
  | L [At "edge"; L [At "none"]; us] -> { e_guard = None; e_assign = List.map upd (lst us) }
  | _ -> failwith "edge"
let templ = function
  | L [At "templ"; i; vs; cs; gs; es] -> { t_instantiated = bl i; t_vars = List.map var (lst vs); t_chans = List.map chan (lst cs); t_invs = List.map gexp (lst gs); t_edges = List.map edge (lst es) }
  | _ -> failwith "templ"
let doc = function
  | L [At "doc"; dy; pr; vs; cs; ts] -> { d_vars = List.map var (lst vs); d_chans = List.map chan (lst cs); d_templs = List.map templ (lst ts); d_dynamic = bl dy; d_priorities = bl pr }
  | _ -> failwith "doc"
let b x = if x then 1 else 0
let () =
  try while true do
    let line = input_line stdin in
    if String.length line > 2 then begin
      let v = check (doc (parse_sx line)) in
      Printf.printf "V %d %d %d\n" (b v.symbolic) (b v.stochastic) (b v.concrete)
    end
  done with End_of_file -> ()
