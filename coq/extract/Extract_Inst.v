From Coq Require Import Extraction ExtrOcamlBasic List.
From Utap Require Import InstModel.
Extraction Language OCaml.
Extraction "model_inst.ml" run st0 inst_okb.
