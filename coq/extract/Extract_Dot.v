From Coq Require Import Extraction ExtrOcamlBasic List.
From Utap Require Import DotModel.
Extraction Language OCaml.
Extraction "model_dot.ml" dot mkproc.
