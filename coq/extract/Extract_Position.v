From Coq Require Import Extraction ExtrOcamlBasic List.
From Utap Require Import Position.
Extraction Language OCaml.
Extraction "model_position.ml" resolve find set_path lex_all.
