(* Correspondence driver for C18: reads the probe's lines "T op args -> result", recomputes the
   result with the extracted Coq model and reports every disagreement. *)
open Model_c18
let rec pos_of_int n = if n = 1 then XH else if n land 1 = 0 then XO (pos_of_int (n lsr 1)) else XI (pos_of_int (n lsr 1))
let z_of_int n = if n = 0 then Z0 else if n > 0 then Zpos (pos_of_int n) else Zneg (pos_of_int (-n))
let rec int_of_pos = function XH -> 1 | XO p -> 2 * int_of_pos p | XI p -> 2 * int_of_pos p + 1
let int_of_z = function Z0 -> 0 | Zpos p -> int_of_pos p | Zneg p -> - (int_of_pos p)
let bnd = function "i8" -> (z_of_int (-128), z_of_int 127) | "i32" -> (z_of_int (-2147483648), z_of_int 2147483647) | s -> failwith ("type " ^ s)
let mk a b = { start = z_of_int a; finish = z_of_int b }
let () =
  let n = ref 0 and bad = ref 0 in
  let hist = Hashtbl.create 64 in
  (try while true do
    let line = input_line stdin in
    match String.split_on_char ' ' line with
    | t :: op :: rest ->
      let (lo, hi) = bnd t in
      let rec split acc = function "->" :: r -> (List.rev acc, r) | x :: r -> split (x :: acc) r | [] -> (List.rev acc, []) in
      let (args, res) = split [] rest in
      let a = List.map int_of_string args and r = List.map int_of_string res in
      let rng x = [int_of_z x.start; int_of_z x.finish] in
      let b x = [if x then 1 else 0] in
      let z = z_of_int in
      let model = match op, a with
        | "gt", [a;b';e] -> rng (gt lo hi (mk a b') (z e))
        | "lt", [a;b';e] -> rng (lt lo hi (mk a b') (z e))
        | "geq", [a;b';e] -> rng (geq (mk a b') (z e))
        | "leq", [a;b';e] -> rng (leq (mk a b') (z e))
        | "or_e", [a;b';e] -> rng (or_e (mk a b') (z e))
        | "and_e", [a;b';e] -> rng (and_e (mk a b') (z e))
        | "lower", [a;b';e] -> rng (lower (mk a b') (z e))
        | "raise", [a;b';e] -> rng (raise (mk a b') (z e))
        | "add_e", [a;b';e] -> rng (add_e lo hi (mk a b') (z e))
        | "sub_e", [a;b';e] -> rng (sub_e lo hi (mk a b') (z e))
        | "mul_e", [a;b';e] -> rng (mul_e lo hi (mk a b') (z e))
        | ("contains"|"contains_op"), [a;b';e] -> b (contains (mk a b') (z e))
        | "eq_e", [a;b';e] -> b (eq_e (mk a b') (z e))
        | "or_r", [a;b';c;d] -> rng (or_r (mk a b') (mk c d))
        | "and_r", [a;b';c;d] -> rng (and_r (mk a b') (mk c d))
        | "add_r", [a;b';c;d] -> rng (add_r lo hi (mk a b') (mk c d))
        | "sub_r", [a;b';c;d] -> rng (sub_r lo hi (mk a b') (mk c d))
        | "mul_r", [a;b';c;d] -> rng (mul_r lo hi (mk a b') (mk c d))
        | "r_lt", [a;b';c;d] -> b (r_lt (mk a b') (mk c d))
        | "r_gt", [a;b';c;d] -> b (r_gt (mk a b') (mk c d))
        | "r_le", [a;b';c;d] -> b (r_le (mk a b') (mk c d))
        | "r_ge", [a;b';c;d] -> b (r_ge (mk a b') (mk c d))
        | "intersects", [a;b';c;d] -> b (intersects (mk a b') (mk c d))
        | "eq_r", [a;b';c;d] -> b (eq_r (mk a b') (mk c d))
        | "size", [a;b'] -> [int_of_z (size (mk a b'))]
        | "empty", [a;b'] -> b (empty (mk a b'))
        | _ -> failwith ("bad line: " ^ line) in
      incr n;
      Hashtbl.replace hist op (1 + (try Hashtbl.find hist op with Not_found -> 0));
      if model <> r then begin
        incr bad;
        if !bad <= 40 then Printf.printf "MISMATCH %s model=%s\n" line (String.concat " " (List.map string_of_int model))
      end
    | _ -> ()
  done with End_of_file -> ());
  Hashtbl.iter (fun k v -> Printf.printf "HIST %s %d\n" k v) hist;
  Printf.printf "CORR cases=%d mismatches=%d\n" !n !bad
