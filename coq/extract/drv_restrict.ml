(* input, one chain per line:  B <bexp> R <n> {sym}n L <levels> { <k> {<sym> <bexp>}k }levels      bexp ::= L <z> | V <sym> | ( <op> <k> bexp*k
   output: "R s s s | F s s s"  — after EACH prefix of the chain (1 .. levels levels), separated by " ; ": the propagated restricted set and the symbols of the substituted size *)
open Model_restrict
let rec nat_of_int n = if n <= 0 then O else S (nat_of_int (n - 1))
let rec int_of_nat = function O -> 0 | S n -> 1 + int_of_nat n
let rec pos_of_int n = if n = 1 then XH else if n land 1 = 0 then XO (pos_of_int (n lsr 1)) else XI (pos_of_int (n lsr 1))
let z_of_int n = if n = 0 then Z0 else if n > 0 then Zpos (pos_of_int n) else Zneg (pos_of_int (-n))
let toks = ref []
let next () = match !toks with t :: r -> toks := r; t | [] -> failwith "eol"
let num () = int_of_string (next ())
let rec bexp () = match next () with
  | "L" -> BLit (z_of_int (num ()))
  | "V" -> BVar (nat_of_int (num ()))
  | "(" -> let o = num () in let k = num () in let rec args n = if n <= 0 then [] else let a = bexp () in a :: args (n - 1) in BOp (nat_of_int o, args k)
  | t -> failwith ("bexp " ^ t)
let rec times n f = if n <= 0 then [] else let x = f () in x :: times (n - 1) f
let expect s = let t = next () in if t <> s then failwith ("expected " ^ s ^ " got " ^ t)
let show l = Stdlib.String.concat " " (List.map (fun s -> string_of_int (int_of_nat s)) (List.sort_uniq compare l))
let rec prefixes = function [] -> [] | x :: r -> [x] :: List.map (fun p -> x :: p) (prefixes r)
let () =
  try while true do
    let line = input_line stdin in
    toks := List.filter (fun w -> w <> "") (Stdlib.String.split_on_char ' ' line);
    expect "B"; let b = bexp () in
    expect "R"; let n = num () in let r0 = times n (fun () -> nat_of_int (num ())) in
    expect "L"; let nl = num () in
    let lvs = times nl (fun () -> let k = num () in times k (fun () -> let s = num () in let e = bexp () in (nat_of_int s, e))) in
    print_endline (Stdlib.String.concat " ; " (List.map (fun p -> "R " ^ show (restrict_chain r0 p) ^ " | F " ^ show (fv (size_after b p))) (prefixes lvs)))
  done with End_of_file -> ()
