(* input, one update per line in prefix form:  A <fp> <hybrid> | S t r | I c a b | C a b | N a b     output: "visit <0|1> top <0|1> fp <0|1>" *)
open Model_upd
let toks = ref []
let next () = match !toks with t :: r -> toks := r; t | [] -> failwith "eol"
let bit () = next () = "1"
let rec uexp () = match next () with
  | "A" -> let fp = bit () in let h = bit () in UAtom (fp, h)
  | "S" -> let t = uexp () in let r = uexp () in UAssign (t, r)
  | "I" -> let c = uexp () in let a = uexp () in let b = uexp () in UIf (c, a, b)
  | "C" -> let a = uexp () in let b = uexp () in UComma (a, b)
  | "N" -> let a = uexp () in let b = uexp () in UNode (a, b)
  | t -> failwith ("uexp " ^ t)
let b = function true -> "1" | false -> "0"
let () =
  try while true do
    let line = input_line stdin in
    toks := List.filter (fun w -> w <> "") (Stdlib.String.split_on_char ' ' line);
    (try let e = uexp () in print_endline ("visit " ^ b (visit e) ^ " top " ^ b (visit_top e) ^ " fp " ^ b (uses_fp e))
     with Failure m -> print_endline ("ERR " ^ m))
  done with End_of_file -> ()
