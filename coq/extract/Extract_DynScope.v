From Coq Require Import Extraction ExtrOcamlBasic List.
From Utap Require Import DynScope.
Extraction Language OCaml.
Extraction "model_dynscope.ml" walk spec.
